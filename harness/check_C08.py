"""C08: determinism; with several cores every locus appears exactly once as one intact line; a failing locus
gives a non-zero exit.

spec : spec/MultiCore/{MultiCore,TraceMultiCore,Reseed,TraceReseed}.tla
bind : 1. spec -> code (schedules): the quotient state graph of MultiCore (every transition TLC generates) is dumped;
          a set of behaviours covering EVERY transition, every maximal behaviour of the small configurations and
          simulated behaviours of larger ones are replayed into the REAL run_stdout / _run_stdout_multi_core /
          _worker / _writer / _assemble_loci_wrapped with `baseclass.mp` replaced by a lock-step fake: after each
          action the control point of every thread, the queue, the flushed output, every stdout buffer and the
          job states must equal the model state; the terminal outcome (return / LocusAssemblyError naming the
          locus) must be the model's exit.
          Reseed behaviours (fits interleaved with raw RNG consumption) are executed in one real process.
       2. code -> spec: (a) the stubbed program under the real multiprocessing (fork) with recorders inherited by
          the pool: per-process event sequences validated as a partial order by TraceMultiCore.tla (TLC searches
          for an interleaving that is a MultiCore behaviour ending in the captured stdout / exit status);
          (b) CLI runs of assemble / call / call-exact / call-pedigree: --cores {1,2,3,5}, permuted and subset
          inputs, repeated runs, a failing locus at every position, records that span the same interval with
          different ALT sets next to each other in one worker block and apart: summaries validated by the terminal
          predicates of MultiCore + cross-run equality of every record and of the header;
          (c) RNG / output fingerprints of repeated DenovoMCMC / CallingMCMC / PedigreeCallingMCMC fits validated
          by TraceReseed.tla.
"""
import collections
import hashlib
import json
import os
import random
import shutil
import subprocess
import sys
import time
from concurrent.futures import ThreadPoolExecutor

sys.path.insert(0, os.path.dirname(os.path.abspath(__file__)))
from vlib import env, tlc, pool
from vlib.report import Check

SPEC = os.path.join(env.SPEC, "MultiCore")
ALL_ACTIONS = {"MainWriteHeader", "MainFlush", "MainStartPool", "MainJoin", "MainRaise", "MainPutKill", "MainClosePool", "MainJoinPool",
               "MainExit0", "MainExit1", "Teardown", "ChildExit", "SingleCall", "SingleWrite", "SingleReturn", "WorkerCall", "WorkerPut",
               "WorkerReturn", "WriterGet", "WriterWrite", "WriterStop"}
ONLY = set(filter(None, os.environ.get("C08_ONLY", "").split(",")))  # development aid: run a subset of the parts


def want(part):
    return not ONLY or part in ONLY


# =====================================================================================================
# state graph / behaviours
# =====================================================================================================
class Graph:
    """The quotient state graph TLC dumped (ACTION_CONSTRAINT DumpEdge / CONSTRAINT DumpInit)."""

    def __init__(self, printed):
        self.insts, self.nodes, self.edges, self.inits = [], [], {}, []
        inst_ix, node_ix = {}, {}

        def nid(inst, st):
            ik = json.dumps(inst, sort_keys=True)
            if ik not in inst_ix:
                inst_ix[ik] = len(self.insts)
                self.insts.append(inst)
            k = (inst_ix[ik], json.dumps(st))
            if k not in node_ix:
                node_ix[k] = len(self.nodes)
                self.nodes.append([inst_ix[ik], st])
            return node_ix[k]

        for p in printed:
            if "init" in p:
                self.inits.append(nid(p["inst"], p["init"]))
            elif "f" in p:
                f, t = nid(p["inst"], p["f"]), nid(p["inst"], p["t"])
                key = "%d|%s|%d" % (f, p["a"][0], p["a"][1])
                if self.edges.get(key, t) != t:
                    raise ValueError("state graph dump is not deterministic at " + key)
                self.edges[key] = t
        self.inits = sorted(set(self.inits))
        self.init_of = {json.dumps(self.insts[self.nodes[n][0]], sort_keys=True): n for n in self.inits}

    def outs(self):
        o = collections.defaultdict(list)
        for k, t in self.edges.items():
            f, a, w = k.split("|")
            o[int(f)].append((a, int(w), t))
        for v in o.values():
            v.sort()
        return o

    def edge_cover(self):
        """Behaviours (init node, labels) that together traverse every edge: for each still uncovered edge (in BFS
        order) the BFS-tree prefix to its source, the edge, then a continuation preferring uncovered edges."""
        outs = self.outs()
        parent = {i: None for i in self.inits}
        order, dq = [], collections.deque(self.inits)
        while dq:
            n = dq.popleft()
            order.append(n)
            for a, w, t in outs[n]:
                if t not in parent:
                    parent[t] = (n, a, w)
                    dq.append(t)
        covered, paths = set(), []
        for n in order:
            for a, w, t in outs[n]:
                if (n, a, w) in covered:
                    continue
                pre, m = [], n
                while parent[m] is not None:
                    pm, pa, pw = parent[m]
                    pre.append((pa, pw))
                    m = pm
                pre.reverse()
                for (pa, pw), src in zip(pre, self._walk_nodes(m, pre)):
                    covered.add((src, pa, pw))
                lab = pre + [(a, w)]
                covered.add((n, a, w))
                cur = t
                while outs[cur]:
                    ch = next((x for x in outs[cur] if (cur, x[0], x[1]) not in covered), outs[cur][0])
                    covered.add((cur, ch[0], ch[1]))
                    lab.append((ch[0], ch[1]))
                    cur = ch[2]
                paths.append([m, lab])
        if len(covered) != len(self.edges):
            raise ValueError("edge cover incomplete: %d of %d" % (len(covered), len(self.edges)))
        return paths

    def _walk_nodes(self, n0, labels):
        n = n0
        for a, w in labels:
            yield n
            n = self.edges["%d|%s|%d" % (n, a, w)]

    def payload(self):
        return {"insts": self.insts, "nodes": self.nodes, "edges": self.edges}


def collect_replay(ck, res, label):
    n = 0
    for rr in res:
        if not rr["ok"]:
            ck.machinery_failure("replay worker failed (%s): %s\n%s" % (label, rr["error"], rr.get("tb", "")))
        o = rr["result"]
        n += o["n"]
        ck.evaluations += o["steps"]
        ck.traces += o["n"]
        ck.nontrivial += o["nontrivial"]
        if o.get("retried"):
            ck.bump("replays_repeated_after_a_stalled_thread", o["retried"])
        for b in o["bad"]:
            first = b["bad"][0]
            ck.violation("replay-mismatch", {"set": label, "inst": b["inst"], "behaviour": b["labels"], "mismatch": b["bad"], "steps": b["steps"]},
                         key={"site": "baseclass.run_stdout", "action": first["action"], "field": first["field"]})
    return n


# =====================================================================================================
# fork-run logs -> TraceMultiCore run records
# =====================================================================================================
def E(e, **kw):
    return dict({"e": e}, **kw)


def normalize_run(res):
    """Raw per-process event logs of one forkrun -> the run record TraceMultiCore.tla consumes.  Purely structural:
    raw events are grouped into MultiCore's critical sections; anything unexpected becomes an event that no model
    action matches (so the run is rejected there)."""
    inst, ev, c = res["inst"], res["events"], res["inst"]["c"]
    raw = [x for x in ev.get("main", []) if x[0] != "begin"]
    main, i, hdr, exc = [], 0, [], "none"
    while i < len(raw) and raw[i][0] == "write" and raw[i][1] < 0:
        hdr.append(raw[i][1])
        i += 1
    main.append(E("MainWriteHeader", lines=hdr))
    dropped_flushes = 0
    if inst["multi"]:
        sp = None
        for name, item in raw[i:]:
            if name == "flush":
                if sp is None:
                    main.append(E("MainFlush"))
                else:
                    dropped_flushes += 1  # multiprocessing flushes the std streams before each fork; interpreter exit
            elif name == "manager":
                sp = E("MainStartPool", n=-1, writer=0, blocks=[], loadfail=0)
                main.append(sp)
            elif name == "pool" and sp is not None:
                sp["n"] = item
            elif name == "submit_writer" and sp is not None:
                sp["writer"] = 1 if not sp["blocks"] else 2
            elif name == "submit_worker" and sp is not None:
                sp["blocks"].append(item[1])
            elif name == "load_fail" and sp is not None:
                sp["loadfail"] = 1
            elif name == "job_ok":
                main.append(E("MainJoin", k=item))
            elif name == "job_raise":
                main.append(E("MainRaise", k=item[0]))
            elif name == "put_begin":
                pass
            elif name == "put":
                main.append(E("MainPutKill", k=item))
            elif name == "close":
                main.append(E("MainClosePool"))
            elif name == "joinpool":
                main.append(E("MainJoinPool"))
            elif name == "returned":
                pass
            elif name == "raised":
                exc = item
            else:
                main.append(E("Unexpected:" + name))
    else:
        for name, item in raw[i:]:
            if name == "call":
                main.append(E("SingleCall", k=item[0], ok=1 if item[1] == "ok" else 0))
            elif name == "load_fail":
                main.append(E("SingleCall", k=item, ok=0))
            elif name == "write":
                main.append(E("SingleWrite", k=item))
            elif name == "returned":
                main.append(E("SingleReturn"))
            elif name == "raised":
                exc = item
            elif name == "flush":
                dropped_flushes += 1
            else:
                main.append(E("Unexpected:" + name))
    wr, returned = [], False
    raw = [x for x in ev.get("writer", []) if x[0] != "start"]
    failed_run = res["exit"] != 0
    if failed_run and raw and raw[-1][0] == "write":
        # the writer was killed between write() and the record of its flush(): the captured stdout says which
        if raw[-1][1] in res["out"]:
            raw.append(["flush", None])
        else:
            raw.pop()
    got = {x[1] for x in raw if x[0] == "get"}
    i = 0
    while i < len(raw):
        name, item = raw[i]
        i += 1
        if name == "get":
            wr.append(E("WriterGet", k=item))
        elif name == "write":
            fl = 1 if i < len(raw) and raw[i][0] == "flush" else 0
            i += fl
            wr.append(E("WriterWrite", k=item, flushed=fl))
        elif name == "return":
            wr.append(E("WriterStop"))
            returned = True
        elif name == "flush":
            dropped_flushes += 1  # not directly after a write: the process's exit flush
        else:
            wr.append(E("Unexpected:" + name))
    blocks = next((m["blocks"] for m in main if m["e"] == "MainStartPool"), None)
    workers = [[] for _ in range(c)]
    used, extra = set(), 0
    for role, lst in sorted(ev.items()):
        if not role.startswith("worker:"):
            continue
        blk = lst[0][1] if lst and lst[0][0] == "start" else None
        w = None if blocks is None else next((j for j in range(min(c, len(blocks))) if j not in used and blocks[j] == blk), None)
        if w is None:
            extra += 1
            continue
        used.add(w)
        out, done = [], False
        body = lst[1:]
        if failed_run and body and body[-1][0] == "put_begin" and body[-1][1] in got:
            body = body + [["put", body[-1][1]]]  # killed between queue.put() and its record; the writer did get the item
        for name, item in body:
            if name == "put_begin":
                continue
            if name == "call":
                out.append(E("WorkerCall", k=item[0], ok=1 if item[1] == "ok" else 0))
            elif name == "put":
                out.append(E("WorkerPut", k=item))
            elif name == "return":
                out.append(E("WorkerReturn"))
                done = True
            elif name == "raise":
                done = True
            elif name == "flush" and done:
                dropped_flushes += 1
            else:
                out.append(E("Unexpected:" + name))
        workers[w] = out
    if extra:
        main.append(E("Unexpected:extra-worker-task"))
    return {"inst": inst, "main": main, "writer": wr, "workers": workers, "out": res["out"], "exit": 0 if res["exit"] == 0 else 1,
            "exc": exc, "hung": 1 if res["hung"] else 0, "exit_flushes": dropped_flushes}


def validate_event_runs(ck, runs, label):
    """TraceMultiCore.SpecEvents over a batch of run records; returns (accepted set, stuck info by tid)"""
    tf = os.path.join(ck.wd, "trace-events-%s.json" % label)
    with open(tf, "w") as fh:
        json.dump({"kind": "events", "runs": runs}, fh)
    t = tlc.run(SPEC, "TraceMultiCore", "Trace.cfg", workers=min(env.NCPU, 8), extra_env={"TRACE_FILE": tf}, timeout=1500,
                name="TraceMultiCore-" + label)
    if t.violated:
        ck.violation("trace-model-invariant", {"trace": label, "invariant": t.violated, "text": t.error_text[:1500]},
                     key={"site": "forkrun", "invariant": t.violated})
    acc = {p["accept"] for p in t.printed if "accept" in p}
    stuck = {}
    for p in t.printed:
        if "stuck" in p and (p["stuck"] not in stuck or p["consumed"] > stuck[p["stuck"]]["consumed"]):
            stuck[p["stuck"]] = p
    return t, acc, stuck


# =====================================================================================================
# CLI-level runs of the real programs
# =====================================================================================================
BEDS = {
    # one private SNV per locus (so that one locus can be made to fail), two loci without SNVs
    "nine": [("CHR1", 0, 5, "LA"), ("CHR1", 5, 12, "LB"), ("CHR1", 12, 20, "LC"), ("CHR1", 20, 30, "LD"), ("CHR1", 30, 50, "LE"),
             ("CHR2", 0, 10, "LF"), ("CHR2", 10, 18, "LG"), ("CHR2", 18, 30, "LH"), ("CHR3", 20, 40, "LI")],
    # the repository's own four targets plus overlapping multi-SNV windows
    "wide": [("CHR1", 5, 25, "CHR1_05_25"), ("CHR1", 30, 50, "CHR1_30_50"), ("CHR2", 10, 30, "CHR2_10_30"), ("CHR3", 20, 40, "CHR3_20_40"),
             ("CHR1", 0, 12, "W1"), ("CHR1", 12, 30, "W2"), ("CHR2", 0, 18, "W3"), ("CHR2", 18, 30, "W4")],
    # targets that share an interval.  For the call programs the records of one interval list different haplotype sets
    # (CliInputs.twin_records), as the haplotype VCFs of two call sets concatenated, or a multi-allelic record split into
    # several records, do: same CHROM / POS / REF length, different ALTs, hence different SNV positions
    "twins": [("CHR1", 5, 25, "TA1"), ("CHR1", 5, 25, "TA2"), ("CHR1", 5, 25, "TA3"), ("CHR1", 30, 50, "TB1"), ("CHR2", 10, 30, "TC1"),
              ("CHR2", 10, 30, "TC2"), ("CHR2", 10, 30, "TC3")],
}
MCMC = ["--mcmc-steps", "300", "--mcmc-burn", "100", "--mcmc-seed", "11"]
CLI_BOOT = "from mchap.application.cli import main; main()"


def h2(text):
    h = hashlib.sha1(text.encode()).digest()
    return [int.from_bytes(h[0:4], "big") >> 4, int.from_bytes(h[4:8], "big") >> 4]


_HASHSEED = [0]


def cli_run(prog, args, timeout):
    """one CLI invocation of the tree under test; returns dict(rc, stdout, stderr, hung, wall)"""
    e = env.impl_env("jit")
    e["PYTHONWARNINGS"] = "ignore::SyntaxWarning"
    # every process has its own string-hash seed in real use (PYTHONHASHSEED unset): repeated runs must not depend on it
    _HASHSEED[0] = _HASHSEED[0] % 7 + 1
    e["PYTHONHASHSEED"] = str(_HASHSEED[0])
    # stdout is a pipe here and must be buffered the way it is in real use (a pipe or a file), not line by line
    e.pop("PYTHONUNBUFFERED", None)
    t0 = time.time()
    p = subprocess.Popen([env.PY, "-c", CLI_BOOT, prog] + args, stdout=subprocess.PIPE, stderr=subprocess.PIPE, env=e,
                         cwd=env.workdir("cwd"), start_new_session=True)
    hung = False
    try:
        out, err = p.communicate(timeout=timeout)
    except subprocess.TimeoutExpired:
        hung = True
        try:
            os.killpg(p.pid, 9)
        except ProcessLookupError:
            pass
        out, err = p.communicate()
    try:
        os.killpg(p.pid, 9)  # stragglers (none expected)
    except (ProcessLookupError, PermissionError):
        pass
    return {"rc": p.returncode, "stdout": out.decode(errors="replace"), "stderr": err.decode(errors="replace")[-3000:], "hung": hung,
            "wall": time.time() - t0}


class CliInputs:
    """input files derived from the repository's own test data (mchap/tests/test_io/data)"""

    def __init__(self, wd):
        import gzip

        import pysam

        self.pysam = pysam
        self.wd = wd
        shutil.rmtree(wd, ignore_errors=True)
        os.makedirs(wd)
        d = os.path.join(env.REPO, "mchap", "tests", "test_io", "data")
        self.ref = os.path.join(d, "simple.fasta")
        self.vcf = os.path.join(d, "simple.vcf.gz")
        self.bams = [os.path.join(d, n) for n in ("simple.sample1.bam", "simple.sample2.deep.bam", "simple.sample3.bam")]
        self.ped = os.path.join(d, "simple.pedigree.132.txt")
        with gzip.open(self.vcf, "rt") as fh:
            self.vcf_lines = fh.read().split("\n")
        # six more SNVs in a region no read covers (CHR3:20-40): the assemble record of a target there calls no allele
        # (every haplotype stays below the reporting threshold, FILTER=NOA) - a record kind of its own, whose presence earlier
        # in a process must not change what follows
        while self.vcf_lines and self.vcf_lines[-1] == "":
            self.vcf_lines.pop()
        self.vcf_lines += ["CHR3\t%d\t.\tA\tC\t.\t.\t." % pos for pos in (22, 25, 28, 31, 34, 37)] + [""]
        plain = os.path.join(wd, "snvs-with-uncovered.vcf")
        with open(plain, "w") as fh:
            fh.write("\n".join(self.vcf_lines))
        pysam.tabix_index(plain, preset="vcf", force=True)
        self.vcf = plain + ".gz"
        with open(self.ref) as fh:
            self.ref_lines = fh.read().split("\n")
        self.snvs = {}  # (contig, pos1) -> set of alleles
        for ln in self.vcf_lines:
            c = ln.split("\t")
            if len(c) > 4 and not ln.startswith("#"):
                self.snvs.setdefault((c[0], int(c[1])), set()).update([c[3]] + c[4].split(","))
        self.n = 0

    def path(self, stem):
        self.n += 1
        return os.path.join(self.wd, "%03d-%s" % (self.n, stem))

    def bed(self, loci):
        p = self.path("targets.bed")
        with open(p, "w") as fh:
            for c, s, e, name in loci:
                fh.write("%s\t%d\t%d\t%s\n" % (c, s, e, name))
        return p

    def private_snv(self, locus):
        c, s, e, _ = locus
        inside = [(k, al) for k, al in sorted(self.snvs.items()) if k[0] == c and s < k[1] <= e]
        return inside[0] if len(inside) == 1 else None

    def bad_snv_inputs(self, locus, with_fasta):
        """SNV file whose REF base at the locus' SNV is a base the alignments contradict; with_fasta: the FASTA agrees
        with the SNV file (so the failure is raised by call_locus in the worker), otherwise the FASTA is the original one
        (so the failure is raised when the locus is built, by loci())."""
        snv = self.private_snv(locus)
        if snv is None:
            return None
        (c, pos), alleles = snv
        new = next((b for b in "CGT" if b not in alleles), None)
        if new is None:
            return None
        out = []
        for ln in self.vcf_lines:
            f = ln.split("\t")
            if len(f) > 4 and f[0] == c and f[1] == str(pos):
                f[3] = new
                ln = "\t".join(f)
            out.append(ln)
        vp = self.path("bad.vcf")
        with open(vp, "w") as fh:
            fh.write("\n".join(out))
        self.pysam.tabix_index(vp, preset="vcf", force=True)
        rp = self.ref
        if with_fasta:
            rp = self.path("bad.fasta")
            cur, o = None, []
            for ln in self.ref_lines:
                if ln.startswith(">"):
                    cur = ln[1:].split()[0]
                elif cur == c and ln:
                    ln = ln[: pos - 1] + new + ln[pos:]
                o.append(ln)
            with open(rp, "w") as fh:
                fh.write("\n".join(o))
            self.pysam.faidx(rp)
        return vp + ".gz", rp

    @staticmethod
    def widen(rec, n_alleles=11):
        """the record with further ALT haplotypes (single-base substitutions of REF at positions no listed ALT varies),
        so that whole-genotype-array fields make the output line longer than any stream buffer"""
        f = rec.split("\t")
        ref = f[3]
        alts = [] if f[4] == "." else f[4].split(",")
        var = {i for a in alts for i in range(len(ref)) if a[i] != ref[i]}
        for i in range(len(ref)):
            if len(alts) + 1 >= n_alleles:
                break
            if i in var or ref[i] not in "ACGT":
                continue
            alts.append(ref[:i] + "ACGT"[("ACGT".index(ref[i]) + 1) % 4] + ref[i + 1:])
        f[4] = ",".join(alts) if alts else "."
        f[7] = ";".join(x for x in f[7].split(";") if x.split("=")[0] in ("END", "REFMASKED")) or "."
        return "\t".join(f)

    @staticmethod
    def snv_offsets(rec):
        """offsets (in REF) at which the haplotypes of a record differ: the SNV positions the program reads base calls at"""
        f = rec.split("\t")
        alts = [] if f[4] == "." else f[4].split(",")
        return tuple(i for i in range(len(f[3])) if any(a[i] != f[3][i] for a in alts))

    def twin_records(self, loci, recs):
        """haplotype records of a dataset in which several targets share an interval: the first record of an interval is kept
        (the assembled haplotypes), the j-th further one lists, instead, the single-SNV haplotypes of the interval's known SNVs
        except the j-th SNV (rotating).  The records of one interval then share CHROM, POS and REF and differ in ALT."""
        byname = {r.split("\t")[2]: r for r in recs}
        seen, out = {}, []
        for c, s, e, name in loci:
            rec = byname[name]
            j = seen.get((c, s, e), 0)
            seen[(c, s, e)] = j + 1
            if j:
                f = rec.split("\t")
                ref, pos = f[3], int(f[1])
                known = [(k[1] - pos, sorted(al)) for k, al in sorted(self.snvs.items()) if k[0] == c and pos <= k[1] < pos + len(ref)]
                keep = [x for i, x in enumerate(known) if len(known) < 2 or i != (j - 1) % len(known)]
                alts = [ref[:o] + a + ref[o + 1:] for o, al in keep for a in al if a != ref[o]]
                f[4] = ",".join(alts) if alts else "."
                f[7] = ";".join(x for x in f[7].split(";") if x.split("=")[0] == "END") or "."
                if len(f) > 8:
                    f[8:] = ["GT"] + ["."] * (len(f) - 9)
                rec = "\t".join(f)
            out.append(rec)
        return out

    def hap_vcf(self, header, records, bad=None, wide=False):
        """haplotype VCF with the given records (in that order); bad = index of the record whose REF haplotype gets a
        base, at its first SNV position, that the alignments contradict"""
        recs = list(records)
        if bad is not None:
            f = recs[bad].split("\t")
            if f[4] == ".":
                return None
            alts = f[4].split(",")
            off = next((i for i in range(len(f[3])) if any(a[i] != f[3][i] for a in alts)), None)
            if off is None:
                return None
            new = next((b for b in "CGT" if all(a[off] != b for a in alts) and f[3][off] != b), None)
            if new is None:
                return None
            f[3] = f[3][:off] + new + f[3][off + 1:]
            recs[bad] = "\t".join(f)
        if wide:
            recs = [self.widen(r) for r in recs]
        self.last_records = recs
        p = self.path("haps.vcf")
        with open(p, "w") as fh:
            fh.write("\n".join(header + recs) + "\n")
        return p


def prog_args(prog, inp, src):
    """src: for assemble (bed, snv vcf, fasta); for the call programs the haplotype VCF"""
    # samples are taken from the read-group IDs (one of the BAMs carries two read groups, i.e. contributes two samples)
    rg = ["--read-group-field", "ID"]
    if prog == "assemble":
        bed, vcf, ref = src
        return ["--bam"] + inp.bams + ["--ploidy", "4", "--targets", bed, "--variants", vcf, "--reference", ref] + MCMC + rg
    if prog == "call":
        return ["--bam"] + inp.bams + ["--ploidy", "4", "--haplotypes", src] + MCMC + rg
    if prog == "call-exact":
        # whole genotype arrays: record lines far longer than any stream buffer
        return ["--bam"] + inp.bams + ["--ploidy", "4", "--haplotypes", src, "--report", "GP", "GL", "AFP"] + rg
    if prog == "call-pedigree":
        return ["--bam"] + inp.bams + ["--sample-parents", inp.ped, "--ploidy", "4", "--haplotypes", src, "--gamete-error", "0.1"] + MCMC
    raise ValueError(prog)


def split_vcf(text):
    lines = text.split("\n")
    if lines and lines[-1] == "":
        lines.pop()
        complete = True
    else:
        complete = False  # the last line is not terminated
    return lines, complete


def norm_header(lines):
    return [ln for ln in lines if not ln.startswith("##fileDate=") and not ln.startswith("##commandline=")]


def summarize(run, gid_of, ncols):
    """stdout of one CLI run -> the summary record TraceMultiCore.SpecSummaries consumes (MultiCore's line encoding)"""
    lines, complete = split_vcf(run["stdout"])
    out, recs = [], []
    pos_of = {g: i + 1 for i, g in enumerate(run["expect"])}
    i = 0
    hdr = []
    while i < len(lines):
        ln = lines[i]
        if ln.startswith("#"):
            j = i
            while j < len(lines) and lines[j].startswith("#"):
                j += 1
            block = norm_header(lines[i:j])
            if block[0].startswith("##fileformat=") and block[-1].startswith("#CHROM\t") and (j < len(lines) or complete):
                out += [-1, -2]  # one whole header block; its content is compared across runs by TLC (hdr)
                if not hdr:
                    hdr = h2("\n".join(block))
            else:
                out.append(99)
            i = j
            continue
        f = ln.split("\t")
        last = i == len(lines) - 1
        if len(f) != ncols or f[2] not in gid_of or (last and not complete):
            out.append(99)
        else:
            g = gid_of[f[2]]
            out.append(pos_of.get(g, 98))
            recs.append([g] + h2(ln))
        i += 1
    return {"grp": run["grp"], "cores": run["cores"], "nl": len(run["expect"]), "fail": run["fail"], "out": out,
            "exit": 0 if run["rc"] == 0 else 1, "hung": 1 if run["hung"] else 0, "lines": recs, "hdr": hdr,
            **run.get("regime", {})}


class Machinery(Exception):
    pass


def cli_collect(wd, quick, seed):
    """plan and execute the CLI runs (no verdicts here: runs in a background thread)"""
    rnd = random.Random(seed + 17)
    t_start = time.time()
    inp = CliInputs(os.path.join(wd, "cli"))
    progs = ["assemble", "call", "call-exact", "call-pedigree"]
    cores_all = [1, 2, 3, 5]
    timeout = 300
    nthreads = max(2, env.NCPU // 2)
    groups = {}  # (prog, ds) -> grp id
    gids = {}  # ds -> {name: global id}
    for ds, loci in BEDS.items():
        gids[ds] = {l[3]: i + 1 for i, l in enumerate(loci)}

    def grp(prog, ds):
        return groups.setdefault((prog, ds), len(groups) + 1)

    # ---- stage 1: reference assemble runs (also warm the numba cache) ------------------------
    ref_runs = {}
    for ds, loci in BEDS.items():
        r = {"prog": "assemble", "ds": ds, "grp": grp("assemble", ds), "cores": 1, "expect": [gids[ds][l[3]] for l in loci], "fail": 0,
             "args": prog_args("assemble", inp, (inp.bed(loci), inp.vcf, inp.ref)) + ["--cores", "1"], "what": "reference"}
        ref_runs[("assemble", ds)] = r
    stage1 = list(ref_runs.values())
    res = cli_run("assemble", stage1[0]["args"], timeout)
    stage1[0].update(res)
    with ThreadPoolExecutor(max_workers=nthreads) as ex:
        for r, res in zip(stage1[1:], ex.map(lambda r: cli_run(r["prog"], r["args"], timeout), stage1[1:])):
            r.update(res)
    hap = {}
    for ds in BEDS:
        r = ref_runs[("assemble", ds)]
        if r["rc"] != 0 or r["hung"]:
            raise Machinery("reference assemble run failed: %s" % r["stderr"][-1500:])
        lines, _ = split_vcf(r["stdout"])
        hap[ds] = ([ln for ln in lines if ln.startswith("#")], [ln for ln in lines if not ln.startswith("#")])
    hap["twins"] = (hap["twins"][0], inp.twin_records(BEDS["twins"], hap["twins"][1]))
    # interval / variant-set ids of the loci of a run (TraceMultiCore: SameIntervalNeighbours / SameIntervalApart)
    ivl_id, vs_id = {}, {}
    shared = {}
    for ds, loci in BEDS.items():
        cnt = collections.Counter(l[:3] for l in loci)
        shared[ds] = sorted(ivl_id.setdefault(k, len(ivl_id) + 1) for k, n in cnt.items() if n > 1)

    def regime(ds, order, records):
        """records: the haplotype records given to a call program (None for assemble: the variants of a target are a
        function of its interval)"""
        loci = BEDS[ds]
        ivl = [ivl_id.setdefault(loci[i][:3], len(ivl_id) + 1) for i in order]
        if records is None:
            vs = [vs_id.setdefault(("interval", loci[i][:3]), len(vs_id) + 1) for i in order]
        else:
            vs = [vs_id.setdefault((loci[i][:3], inp.snv_offsets(r)), len(vs_id) + 1) for i, r in zip(order, records)]
        return {"ivl": ivl, "vs": vs, "shared": shared[ds]}

    for r in stage1:
        r["regime"] = regime(r["ds"], range(len(BEDS[r["ds"]])), None)

    # ---- plan ------------------------------------------------------------------------------------
    plan = []

    def add(prog, ds, cores, order, fail=0, what="", bad_kind=None):
        loci = BEDS[ds]
        expect = [gids[ds][loci[i][3]] for i in order]
        if prog == "assemble":
            src = (inp.bed([loci[i] for i in order]), inp.vcf, inp.ref)
            if fail:
                b = inp.bad_snv_inputs(loci[order[fail - 1]], with_fasta=(bad_kind == "call"))
                if b is None:
                    return False
                src = (src[0], b[0], b[1])
        else:
            header, recs = hap[ds]
            byname = {r.split("\t")[2]: r for r in recs}
            sel = [byname[loci[i][3]] for i in order]
            src = inp.hap_vcf(header, sel, bad=(fail - 1) if fail else None, wide=(prog == "call-exact"))
            if src is None:
                return False
        plan.append({"prog": prog, "ds": ds, "grp": grp(prog, ds), "cores": cores, "expect": expect, "fail": fail, "what": what,
                     "bad_kind": bad_kind, "args": prog_args(prog, inp, src) + ["--cores", str(cores)],
                     "regime": regime(ds, order, None if prog == "assemble" else inp.last_records)})
        return True

    for prog in progs:
        for ds, loci in BEDS.items():
            n = len(loci)
            ident = list(range(n))
            rev = ident[::-1]
            perm = ident[:]
            rnd.shuffle(perm)
            sub = sorted(rnd.sample(ident, n // 2 + 1))
            sub2 = [i for i in perm if i % 2 == 0]
            if ds == "twins":
                # same-interval records next to each other in one block (file order, reversed, every --cores value splits the
                # groups differently) against the same records with no same-interval record before them in their process
                groups_ = collections.defaultdict(list)
                for i, l in enumerate(loci):
                    groups_[l[:3]].append(i)
                depth = max(len(v) for v in groups_.values())
                # round-robin over the intervals: no two records of one interval are neighbours
                inter = [v[j] for j in range(depth) for v in groups_.values() if j < len(v)]
                if prog == "assemble":
                    add(prog, ds, 3, rev, what="reversed")
                    if not quick:
                        add(prog, ds, 2, ident, what="cores")
                else:
                    add(prog, ds, 1, ident, what="reference")
                    if prog == "call" or not quick:
                        add(prog, ds, 3, ident, what="cores")
                    add(prog, ds, 1, rev, what="reversed")
                    add(prog, ds, 2, inter, what="permuted")
                    # without the first record of every shared interval (the further ones list equally many SNVs)
                    add(prog, ds, 1, [i for v in groups_.values() for i in (v[1:] if len(v) > 1 else v)], what="subset")
                if not quick:
                    # one record of every interval (the j-th of those that have one): each on its own
                    for j in range(depth):
                        add(prog, ds, 1 if j % 2 else 2, [v[j] for v in groups_.values() if j < len(v)], what="subset")
                    if prog != "assemble":
                        add(prog, ds, 2, ident, what="cores")
                    add(prog, ds, 5, ident, what="cores")
                    add(prog, ds, 1, ident, what="repeat")
                    add(prog, ds, 2, rev, what="reversed")
                    add(prog, ds, 3, perm, what="permuted")
                    add(prog, ds, 1, perm, what="permuted")
                    add(prog, ds, 1, inter, what="permuted")
                    add(prog, ds, 1, sub, what="subset")
                    add(prog, ds, 2, sub2, what="permuted subset")
                continue
            if quick and ds == "wide":
                if prog in ("assemble", "call"):
                    if prog != "assemble":
                        add(prog, ds, 1, ident, what="reference")
                    add(prog, ds, 3, ident, what="cores")
                    add(prog, ds, 2, perm, what="permuted")
                    add(prog, ds, 5, sub, what="subset")
                continue
            if prog != "assemble":
                add(prog, ds, 1, ident, what="reference")
            for c in cores_all[1:]:
                add(prog, ds, c, ident, what="cores")
            add(prog, ds, 3, ident, what="repeat")
            if ds == "nine" and (prog == "assemble" or not quick):
                add(prog, ds, 12, ident, what="cores > loci")
                add(prog, ds, 3, [], what="no loci")
                if not quick:
                    add(prog, ds, 1, [], what="no loci")
            add(prog, ds, 1, rev, what="reversed")
            add(prog, ds, 3 if quick else 2, perm, what="permuted")
            add(prog, ds, 2 if quick else 5, sub, what="subset")
            if not quick:
                add(prog, ds, 1, ident, what="repeat")
                add(prog, ds, 3, rev, what="reversed")
                add(prog, ds, 5, perm, what="permuted")
                add(prog, ds, 1, sub, what="subset")
                add(prog, ds, 3, sub2, what="permuted subset")
        # one failing locus at each position
        n = len(BEDS["nine"])
        ident = list(range(n))
        k = progs.index(prog)
        for pos in range(1, n + 1):
            if quick:
                cs = [cores_all[(pos + k) % 4]] if (prog == "assemble" or pos % 3 == k % 3) else []
            else:
                cs = cores_all
            for c in cs:
                add(prog, "nine", c, ident, fail=pos, what="failing locus (raised by call_locus)", bad_kind="call")
            if prog == "assemble":
                for c in ([cores_all[(pos + 2) % 4]] if quick and pos % 3 == 1 else [] if quick else [1, 3]):
                    add(prog, "nine", c, ident, fail=pos, what="failing locus (raised by loci())", bad_kind="load")
    # reference runs of the call programs first (they warm the rest of the numba cache), then everything else
    refs = [r for r in plan if r["what"] == "reference"]
    rest = [r for r in plan if r["what"] != "reference"]
    stages = {"assemble references": round(time.time() - t_start, 1)}
    for label, batch in (("call references", refs), ("rest", rest)):
        t_b = time.time()
        with ThreadPoolExecutor(max_workers=nthreads) as ex:
            for r, res in zip(batch, ex.map(lambda r: cli_run(r["prog"], r["args"], timeout), batch)):
                r.update(res)
        stages[label] = round(time.time() - t_b, 1)
    allruns = stage1 + refs + rest
    return {"allruns": allruns, "gids": gids, "progs": progs, "wall": round(time.time() - t_start, 1), "stages": stages}


def cli_validate(ck, data, lap):
    allruns, gids, progs = data["allruns"], data["gids"], data["progs"]
    ck.note("cli_wall_s", data["wall"])
    ck.note("cli_longest_record_bytes", {p: max((len(ln) for r in data["allruns"] if r["prog"] == p for ln in r.get("stdout", "").split("\n")
                                                 if not ln.startswith("#")), default=0) for p in data["progs"]})
    # ---- summaries -> TLC ------------------------------------------------------------------------
    # 9 fixed columns + sample columns: read-group IDs as samples give 4 (one BAM carries two read groups);
    # call-pedigree keeps the 3 SM samples its pedigree file names
    docs = [summarize(r, gids[r["ds"]], 9 + (3 if r["prog"] == "call-pedigree" else 4)) for r in allruns]
    tf = os.path.join(ck.wd, "trace-summaries.json")
    with open(tf, "w") as fh:
        json.dump({"kind": "summaries", "runs": docs}, fh)
    try:
        t = tlc.run(SPEC, "TraceMultiCore", "TraceSummaries.cfg", workers=1, extra_env={"TRACE_FILE": tf}, timeout=1500, name="TraceMultiCore-summaries")
    except tlc.TLCError as e:
        ck.machinery_failure(str(e))
    ck.add_tlc(t, "TraceMultiCore/summaries")
    cons = [p for p in t.printed if "consumed" in p]
    if not cons or cons[0]["consumed"] != len(docs):
        ck.machinery_failure("CLI summaries not fully consumed: %s of %d\n%s" % (cons, len(docs), t.error_text[:1500]))
    rejected = {p["reject"] - 1: p["clause"] for p in t.printed if "reject" in p}
    for i, r in enumerate(allruns):
        if i in rejected:
            ref = next(x for x in allruns if x["grp"] == r["grp"])
            ck.violation("cli-reject", {"clause": rejected[i], "program": r["prog"], "dataset": r["ds"], "cores": r["cores"], "what": r["what"],
                                        "rerun": {k: r[k] for k in ("prog", "ds", "grp", "cores", "expect", "fail", "args")},
                                        "reference": {k: ref[k] for k in ("prog", "ds", "grp", "cores", "expect", "fail", "args")},
                                        "fail_position": r["fail"], "exit": r["rc"], "hung": r["hung"], "summary": docs[i],
                                        "args": r["args"], "stderr": r["stderr"][-800:]},
                         key={"site": "mchap " + r["prog"], "clause": rejected[i], "what": r["what"], "cores": r["cores"]})
        else:
            ck.traces += 1
            ck.evaluations += len(docs[i]["lines"]) + 1
            if r["fail"]:
                ck.nontrivial += 1
    ck.note("cli_runs", {"runs": len(allruns), "rejected": len(rejected), "with_failing_locus": sum(1 for r in allruns if r["fail"]),
                         "distinct_locus_lines": cons[0]["lines"], "groups": cons[0]["groups"],
                         "by_program": {p: sum(1 for r in allruns if r["prog"] == p) for p in progs},
                         "max_wall_s": round(max(r["wall"] for r in allruns), 1),
                         "run_wall_s_by_dataset": {ds: round(sum(r["wall"] for r in allruns if r["ds"] == ds), 1) for ds in BEDS},
                         "stages_wall_s": data.get("stages")})
    # the regime "records that span the same interval but list different variants": measured by the trace spec from
    # MultiCore's block split; every call program must have been run with such records next to each other in one process
    # and with the same records apart (the deciding clause is LineIdenticalAcrossRuns)
    reg = {p["regime"] - 1: p for p in t.printed if "regime" in p}
    cover = {p: {"same_interval_neighbours": sum(1 for i, x in reg.items() if allruns[i]["prog"] == p and x["neighbours"]),
                 "same_interval_apart": sum(1 for i, x in reg.items() if allruns[i]["prog"] == p and x["apart"]),
                 "neighbours_across_cores": sorted({allruns[i]["cores"] for i, x in reg.items() if allruns[i]["prog"] == p and x["neighbours"]})}
             for p in progs}
    ck.note("cli_same_interval_records", cover)
    for p in progs:
        if p != "assemble" and not (cover[p]["same_interval_neighbours"] and cover[p]["same_interval_apart"]):
            ck.machinery_failure("no run of %s with same-interval records of different variants next to each other / apart: %s" % (p, cover[p]))
    ck.nontrivial += sum(1 for i, x in reg.items() if x["neighbours"] and i not in rejected)
    ex = next(r for r in allruns if r["fail"] and r["cores"] > 1)
    exs = docs[allruns.index(ex)]
    ck.sample({"kind": "CLI run summary", "program": ex["prog"], "cores": ex["cores"], "what": ex["what"], "fail_position": ex["fail"],
               "out": exs["out"], "exit": exs["exit"], "lines": exs["lines"][:2]})
    # ---- binding demonstration: corrupted summaries must be rejected -----------------------------
    okruns = [d for i, d in enumerate(docs) if i not in rejected and d["fail"] == 0 and d["cores"] > 1 and len(d["lines"]) >= 4]
    if not okruns or not any(d["fail"] for i, d in enumerate(docs) if i not in rejected):
        if ck.violations:
            return
        ck.machinery_failure("no accepted multi-core CLI run to corrupt")
    base = okruns[0]
    cor = [d for d in docs if d["grp"] == base["grp"]][:1]  # the group's reference run binds the canonical hashes
    want = []
    c1 = json.loads(json.dumps(base))
    c1["lines"][1][1] = (c1["lines"][1][1] + 1) % (1 << 28)
    want.append("LineIdenticalAcrossRuns")
    c2 = json.loads(json.dumps(base))
    c2["out"].append(c2["out"][-1])
    want.append("NoDuplicate")
    c3 = json.loads(json.dumps(base))
    del c3["out"][-1]
    want.append("Exit0Complete")
    c4 = json.loads(json.dumps(base))
    c4["out"] = c4["out"][:3] + [-1, -2] + c4["out"][3:]
    want.append("HeaderOnce")
    c5 = json.loads(json.dumps(base))
    c5["out"][-1] = 99
    want.append("Intact")
    fr = [d for i, d in enumerate(docs) if i not in rejected and d["fail"]][0]
    c6 = json.loads(json.dumps(fr))
    c6["exit"] = 0
    want.append("FailNonZero")
    c7 = json.loads(json.dumps(base))
    c7["hdr"][0] = (c7["hdr"][0] + 1) % (1 << 28)
    want.append("HeaderIdenticalAcrossRuns")
    cor += [c1, c2, c3, c4, c5, c6, c7]
    # a record that follows a same-interval record of different variants in its block and is not the line that locus has
    # in the group's reference run (what a result carried over from the previous locus looks like)
    tw = [i for i, x in reg.items() if x["neighbours"] and i not in rejected and docs[i]["exit"] == 0
          and docs[i] is not next(d for d in docs if d["grp"] == docs[i]["grp"])]
    n8 = 0
    if tw:
        d8 = docs[tw[0]]
        c8 = json.loads(json.dumps(d8))
        nl8, c8n = d8["nl"], d8["cores"]
        sizes = [nl8 // c8n + (1 if w < nl8 % c8n else 0) for w in range(c8n)]  # numpy.array_split, as MultiCore!GoodBlock
        blocks = [list(range(sum(sizes[:w]) + 1, sum(sizes[:w + 1]) + 1)) for w in range(c8n)]
        k8 = next(b[i + 1] for b in blocks for i in range(len(b) - 1)
                  if d8["ivl"][b[i] - 1] == d8["ivl"][b[i + 1] - 1] and d8["vs"][b[i] - 1] != d8["vs"][b[i + 1] - 1])
        g8 = allruns[tw[0]]["expect"][k8 - 1]
        ln8 = next(x for x in c8["lines"] if x[0] == g8)
        ln8[1] = (ln8[1] + 1) % (1 << 28)
        cor += [next(d for d in docs if d["grp"] == d8["grp"]), c8]
        n8 = len(cor)
    elif not ck.violations:
        ck.machinery_failure("no accepted CLI run with same-interval neighbours to corrupt")
    tfc = os.path.join(ck.wd, "trace-summaries-corrupt.json")
    with open(tfc, "w") as fh:
        json.dump({"kind": "summaries", "runs": cor}, fh)
    t2 = tlc.run(SPEC, "TraceMultiCore", "TraceSummaries.cfg", workers=1, extra_env={"TRACE_FILE": tfc}, name="TraceMultiCore-summaries-corrupt")
    got = {p["reject"]: p["clause"] for p in t2.printed if "reject" in p}
    if [got.get(i + 2) for i in range(len(want))] != want or 1 in got:
        ck.machinery_failure("corrupted CLI summaries not rejected as expected: %s (wanted %s)" % (got, want))
    if n8:
        reg2 = {p["regime"]: p for p in t2.printed if "regime" in p}
        if got.get(n8) != "LineIdenticalAcrossRuns" or (n8 - 1) in got or not reg2.get(n8, {}).get("neighbours"):
            ck.machinery_failure("corrupted same-interval record not rejected as expected: %s / %s" % (got, reg2.get(n8)))
    ck.bump("corrupted_traces_rejected", len(want) + (1 if n8 else 0))
    lap("cli-validate")


def reseed_collect(quick, seed):
    rnd = random.Random(seed + 29)
    t_start = time.time()
    cfgs = ["Reseed_quick"] if quick else ["Reseed_thorough", "Reseed_deep"]
    muts = ["numpyonly", "drawfirst", "seedonce", "cachedep"]
    try:
        with ThreadPoolExecutor(max_workers=6) as ex:
            rr = list(ex.map(lambda c: tlc.run(SPEC, "Reseed", c + ".cfg", workers=2), cfgs + ["Reseed_Mutant_" + m for m in muts]))
    except tlc.TLCError as e:
        raise Machinery(str(e))
    hists = sorted({json.dumps(p["hist"]) for r in rr[: len(cfgs)] for p in r.printed})
    hists = [json.loads(h) for h in hists]
    for r in rr[: len(cfgs)]:
        r.printed = None
    rnd.shuffle(hists)
    nproc = max(1, min(env.NCPU // 2, 4 if quick else 8))
    tasks = [{"op": "reseed", "histories": hists[i::nproc], "steps": 30} for i in range(nproc)]
    res = pool.map_tasks("impl.c08", tasks, mode="jit", nproc=nproc, warm_first=False)
    return {"cfgs": cfgs, "muts": muts, "rr": rr, "hists": hists, "res": res, "wall": round(time.time() - t_start, 1)}


def reseed_validate(ck, data, lap):
    cfgs, muts, rr, hists, res = data["cfgs"], data["muts"], data["rr"], data["hists"], data["res"]
    ck.note("reseed_wall_s", data["wall"])
    for cfg, r in zip(cfgs, rr):
        ck.add_tlc(r, "Reseed/" + cfg)
        if r.violated:
            ck.violation("model", {"cfg": cfg, "invariant": r.violated, "text": r.error_text[:1500]}, key={"model": "Reseed"})
    for m, x in zip(muts, rr[len(cfgs):]):
        if x.violated != "OutputFunctionOfSeed":
            ck.machinery_failure("mutant spec Reseed_Mutant_%s not killed" % m)
    ck.bump("mutant_specs_killed", len(muts))
    docs = []
    for rr_ in res:
        if not rr_["ok"]:
            ck.violation("reseed-error", {"error": rr_["error"], "tb": rr_.get("tb", "")[-800:]}, key={"site": "fit", "what": "exception"})
            continue
        docs.append(rr_["result"])

    def val(i):
        tf = os.path.join(ck.wd, "trace-reseed-%d.json" % i)
        with open(tf, "w") as fh:
            json.dump(docs[i], fh)
        return tlc.run(SPEC, "TraceReseed", "TraceReseed.cfg", workers=1, extra_env={"TRACE_FILE": tf}, timeout=2400, name="TraceReseed-%d" % i)

    try:
        with ThreadPoolExecutor(max_workers=max(2, env.NCPU // 2)) as ex:
            ts = list(ex.map(val, range(len(docs))))
    except tlc.TLCError as e:
        ck.machinery_failure(str(e))
    nfit = nev = 0
    for i, (d, t) in enumerate(zip(docs, ts)):
        ck.add_tlc(t, None)
        cons = [p for p in t.printed if "consumed" in p]
        if not cons or cons[0]["consumed"] != len(d["events"]):
            ck.machinery_failure("reseed trace %d not fully consumed: %s of %d\n%s" % (i, cons, len(d["events"]), t.error_text[:1200]))
        for p in t.printed:
            if "reject" in p:
                e = d["events"][p["reject"] - 1]
                fit = next((x for x in reversed(d["events"][: p["reject"]]) if x["op"] == "enter"), {"x": 0})
                ck.violation("trace-reject", {"trace": "reseed-%d" % i, "line": p["reject"], "clause": p["clause"], "event": e,
                                              "fit": d["header"]["inputs"].get(str(fit["x"])), "context": d["events"][max(0, p["reject"] - 6): p["reject"]]},
                             key={"site": d["header"]["inputs"].get(str(fit["x"]), "?"), "clause": p["clause"]})
        nfit += d["fits"]
        nev += len(d["events"])
        ck.traces += d["histories"]
    ck.evaluations += nev
    ck.nontrivial += sum(1 for h in hists if any(op[0] == 3 and k > 0 for k, op in enumerate(h)))
    ck.note("reseed", {"histories": len(hists), "fits": nfit, "events": nev, "processes": len(docs)})
    ck.parts["TraceReseed"] = {"runs": len(ts), "distinct_states": sum(t.distinct for t in ts), "wall_s": round(sum(t.wall for t in ts), 1)}
    if not docs:
        return
    d0 = docs[0]
    k = next(i for i, e in enumerate(d0["events"]) if e["op"] == "enter")
    ck.sample({"kind": "recorded fit (RNG fingerprints)", "fit": d0["header"]["inputs"][str(d0["events"][k]["x"])], "events": d0["events"][max(0, k - 1): k + 5]})
    lap("reseed-validate")
    if ck.violations:
        return
    # binding demonstration: corrupted recorded histories must be rejected
    ev = [dict(e) for e in d0["events"][: min(len(d0["events"]), 400)]]
    rets = [i for i, e in enumerate(ev) if e["op"] == "return"]
    seen, dup = {}, None
    for i in rets:
        kx = (ev[i]["x"], ev[i]["seed"])
        if kx in seen:
            dup = i
            break
        seen[kx] = i
    want = {}
    if dup is not None:
        ev[dup]["out"] = [ev[dup]["out"][0] ^ 1, ev[dup]["out"][1]]
        want[dup + 1] = "OutputFunctionOfSeed"
    snb = [i for i, e in enumerate(ev) if e["op"] == "seed_nb"]
    drop = snb[len(snb) // 2]  # a fit that does not seed numba's generator
    ev2 = ev[:drop] + ev[drop + 1:]
    want2 = "BothGeneratorsSeededBeforeSampling"
    k2 = next(i for i in range(drop, len(ev2)) if ev2[i]["op"] == "ran")
    enters = [i for i, e in enumerate(ev) if e["op"] == "enter" and i > 2]
    ev3 = [dict(e) for e in ev]
    k3 = enters[0]
    ev3[k3 + 1]["np0"] = [ev3[k3 + 1]["np0"][0] ^ 1, ev3[k3 + 1]["np0"][1]]  # something was drawn between fit entry and seeding
    outs = []
    for j, evs in enumerate((ev, ev2, ev3)):
        tf = os.path.join(ck.wd, "trace-reseed-corrupt-%d.json" % j)
        with open(tf, "w") as fh:
            json.dump({"header": d0["header"], "events": evs}, fh)
        t = tlc.run(SPEC, "TraceReseed", "TraceReseed.cfg", workers=1, extra_env={"TRACE_FILE": tf}, name="TraceReseed-corrupt-%d" % j)
        outs.append({p["reject"]: p["clause"] for p in t.printed if "reject" in p})
    ok = all(outs[0].get(k) == v for k, v in want.items()) and outs[1].get(k2 + 1) == want2 and outs[2].get(k3 + 2) == "NothingConsumedUnobserved"
    if not ok:
        ck.machinery_failure("corrupted reseed traces not rejected as expected: %s want %s / %s@%d / NothingConsumedUnobserved@%d" % (outs, want, want2, k2 + 1, k3 + 2))
    ck.bump("corrupted_traces_rejected", len(want) + 2)
    lap("reseed-corrupt")


def fork_corrupt_demo(ck, runs, acc):
    # binding demonstration: corrupted recorded runs must be rejected
    good = [r for i, r in enumerate(runs) if (i + 1) in acc and r["inst"]["multi"] and r["inst"]["kind"] == "none" and r["inst"]["nl"] >= 2 and r["inst"]["c"] >= 2]
    if not good:
        if ck.violations:
            return  # the recorded runs themselves were rejected: that is the verdict
        ck.machinery_failure("no accepted multi-core fork run to corrupt")
    base = good[0]
    cor = []
    c1 = json.loads(json.dumps(base))  # a line written twice
    k = next(i for i, e in enumerate(c1["writer"]) if e["e"] == "WriterWrite")
    c1["writer"].insert(k + 1, dict(c1["writer"][k]))
    c1["out"].insert(3, c1["out"][2])
    cor.append(c1)
    c2 = json.loads(json.dumps(base))  # KILL put before the last job is joined
    km = next(i for i, e in enumerate(c2["main"]) if e["e"] == "MainPutKill")
    kj = max(i for i, e in enumerate(c2["main"]) if e["e"] == "MainJoin")
    c2["main"][km], c2["main"][kj] = c2["main"][kj], c2["main"][km]
    cor.append(c2)
    c3 = json.loads(json.dumps(base))  # header not flushed before the pool starts
    c3["main"] = [e for e in c3["main"] if e["e"] != "MainFlush"]
    cor.append(c3)
    c4 = json.loads(json.dumps(base))  # a locus missing from stdout although the exit status is 0
    del c4["out"][-1]
    cor.append(c4)
    bf = [r for i, r in enumerate(runs) if (i + 1) in acc and r["inst"]["multi"] and r["inst"]["kind"] == "call"]
    if bf:
        c5 = json.loads(json.dumps(bf[0]))  # a failing locus but exit status 0
        c5["exit"] = 0
        cor.append(c5)
    try:
        t2, acc2, _ = validate_event_runs(ck, cor, "corrupt")
    except tlc.TLCError as e:
        ck.machinery_failure(str(e))
    if acc2:
        ck.machinery_failure("corrupted fork runs accepted: %s" % sorted(acc2))
    ck.bump("corrupted_traces_rejected", len(cor))


def replay_violation(path):
    """./check C08 --replay work/C08/violation-N.json : re-run exactly that instance"""
    with open(path) as fh:
        v = json.load(fh)
    ck = Check("C08")
    d = v["detail"]
    if v["kind"] == "replay-mismatch":
        res = pool.map_tasks("impl.c08", [{"op": "replay", "behaviours": [{"inst": d["inst"], "steps": d["steps"]}], "sep_exit": d["set"] != "all-behaviours"}],
                             mode="jit", warm_first=False)
        if not res[0]["ok"]:
            ck.machinery_failure(res[0]["error"])
        bad = res[0]["result"]["bad"]
        print(json.dumps(bad[0]["bad"] if bad else "behaviour replayed without mismatch", indent=1))
        sys.exit(1 if bad else 0)
    if v["kind"] == "trace-reject" and "run" in d:
        t, acc, stuck = validate_event_runs(ck, [d["run"]], "replayed")
        print("accepted" if 1 in acc else json.dumps(stuck.get(1), indent=1))
        sys.exit(0 if 1 in acc else 1)
    if v["kind"] in ("cli-reject",):
        gids = {ds: {l[3]: i + 1 for i, l in enumerate(loci)} for ds, loci in BEDS.items()}
        docs = []
        for r in (d["reference"], d["rerun"]):
            r = dict(r)
            r.update(cli_run(r["prog"], r["args"], 300))
            docs.append(summarize(r, gids[r["ds"]], 9 + (3 if r["prog"] == "call-pedigree" else 4)))
        tf = os.path.join(ck.wd, "trace-summaries-replayed.json")
        with open(tf, "w") as fh:
            json.dump({"kind": "summaries", "runs": docs}, fh)
        t = tlc.run(SPEC, "TraceMultiCore", "TraceSummaries.cfg", workers=1, extra_env={"TRACE_FILE": tf}, name="TraceMultiCore-replayed")
        rej = [p for p in t.printed if "reject" in p]
        print(json.dumps(rej) if rej else "accepted")
        sys.exit(1 if rej else 0)
    print("no replay procedure for violations of kind %s; the file holds the complete instance" % v["kind"])
    sys.exit(2)


def main():
    if os.environ.get("VERIF_REPLAY"):
        replay_violation(os.environ["VERIF_REPLAY"])
    ck = Check("C08")
    quick = ck.tier == "quick"
    rnd = random.Random(ck.seed)
    ck.rule = (
        "MultiCore: TLC explores every interleaving of main / writer / worker tasks for every instance (loci 0..MaxL, cores "
        "1..MaxC incl. cores > loci, no failure / call_locus failing at any one locus / loci() failing, single-core path and "
        "multi-core path) and dumps the state graph; behaviours covering every transition, every maximal behaviour of the "
        "small configurations and simulated behaviours of larger instances are replayed into the real orchestration code "
        "under a lock-step multiprocessing fake. CLI runs include haplotype files whose records span the same interval with "
        "different ALT sets (targets sharing an interval for assemble), next to each other in one worker block and apart "
        "(TraceMultiCore SameIntervalNeighbours / SameIntervalApart over MultiCore's block split). Non-trivial = replayed "
        "behaviour / recorded run / CLI run with a failing locus or with same-interval records of different variants handled "
        "consecutively by one process, and Reseed histories in which a fit is preceded by other RNG consumption."
    )
    tier = "quick" if quick else "thorough"
    phase = {}
    tp = [time.time()]

    def lap(name):
        phase[name] = round(time.time() - tp[0], 1)
        tp[0] = time.time()
        ck.note("phase_wall_s", phase)
        if os.environ.get("C08_VERBOSE"):
            print("phase %s %.1fs" % (name, phase[name]), flush=True)

    # the CLI runs (subprocesses) and the Reseed histories (their own workers) run in the background while the
    # model checking / replay / fork parts use the rest of the machine; verdicts are formed afterwards, here
    bg = ThreadPoolExecutor(max_workers=2)
    f_cli = bg.submit(cli_collect, ck.wd, quick, ck.seed) if want("cli") else None
    f_rs = bg.submit(reseed_collect, quick, ck.seed) if want("reseed") else None

    # ---------------------------------------------------------------------------------------------
    # A. model checking
    # ---------------------------------------------------------------------------------------------
    mutants = {"Mutant_noflush": "HeaderOnce", "Mutant_earlykill": "KillLast", "Mutant_earlykill_complete": "Exit0Complete",
               "Mutant_swallow": "FailNonZero", "Mutant_overlap": "NoDuplicate", "Mutant_nokill": "Deadlock"}
    results = {}
    # every TLC job of parts A and B is started now; the replay waits for the ones it needs
    tex = ThreadPoolExecutor(max_workers=16)
    futs = {}

    def submit(cfg, **kw):
        futs[cfg] = tex.submit(tlc.run, SPEC, "MultiCore", cfg + ".cfg", **kw)

    def result(cfg):
        try:
            return futs[cfg].result()
        except tlc.TLCError as e:
            ck.machinery_failure(str(e))

    live = "MC_live" if quick else "MC_live_thorough"
    beh_cfgs = (("Beh_q", 1), ("Beh_b", 8 if quick else 1)) + (() if quick else (("Beh_c", 1),))
    if want("mc"):
        submit("MC_%s" % tier, workers=max(2, env.NCPU // 2), timeout=2400)
        submit(live, workers=2 if quick else 6, timeout=2400)
        for m in mutants:
            submit(m, workers=1)
    if want("replay"):
        if "MC_quick" not in futs and quick:
            submit("MC_quick", workers=max(2, env.NCPU // 2), timeout=2400)
        if not quick:
            submit("MC_graph", workers=4, timeout=2400)
        submit("Graph_beh", workers=2)
        for c, _ in beh_cfgs:
            submit(c, workers=4, timeout=2400)
        submit("Sim", simulate="num=%d" % (400 if quick else 4000), depth=80, seed=ck.seed + 1, deadlock=False, workers=4, timeout=1200)
    if want("mc"):
        for c in ["MC_%s" % tier, live] + list(mutants):
            results[c] = result(c)
        for m, inv in mutants.items():
            if results[m].violated != inv:
                ck.machinery_failure("mutant spec %s not killed (%s)" % (m, results[m].violated))
        ck.bump("mutant_specs_killed", len(mutants))
        r = results["MC_%s" % tier]
        ck.add_tlc(r, "MultiCore/MC_%s" % tier)
        if r.violated:
            ck.violation("model", {"cfg": "MC_%s" % tier, "invariant": r.violated, "text": r.error_text[:1500]}, key={"model": "MultiCore"})
        rl = results[live]
        ck.add_tlc(rl, "MultiCore/" + live)
        if rl.violated:
            ck.violation("model-liveness", {"cfg": live, "property": "Terminates", "text": rl.error_text[:1500]}, key={"model": "MultiCore", "liveness": True})
        ck.exhaustive = True
        lap("model-checking")

    # ---------------------------------------------------------------------------------------------
    # B + C. spec -> code: lock-step replay; code -> spec (a): real multiprocessing runs of the stubbed
    # program.  One worker pool serves both (starting a worker = importing numba + mchap).
    # ---------------------------------------------------------------------------------------------
    tasks, tags = [], []
    W = 2 * env.NCPU  # a lock-step replay mostly waits for thread hand-offs: two workers per CPU
    if want("fork"):
        nrun = 64 if quick else 400
        shapes = [(nl, c, multi) for nl in range(0, 7) for c in range(1, 6) for multi in ((True,) if c > 1 else (False, True))]
        for i in range(nrun):
            nl, c, multi = shapes[i % len(shapes)] if i < len(shapes) else rnd.choice(shapes)
            kind = rnd.choice(["none", "call", "call", "load"]) if nl and i % 2 else "none"
            fail = rnd.randint(1, nl) if kind != "none" else 0
            tasks.append({"op": "forkrun", "inst": {"nl": nl, "c": c, "fail": fail, "kind": kind, "multi": multi},
                          "dir": os.path.join(ck.wd, "fork", "%d" % i), "timeout": 60,
                          "delays": {str(k): rnd.choice([0, 0, 0, 1, 2, 5]) for k in range(1, nl + 1)}})
            tags.append("fork")
    if want("replay"):
        gsrc = result("MC_quick" if quick else "MC_graph")
        g = Graph(gsrc.printed)
        gsrc.printed = None
        if not quick:
            ck.add_tlc(gsrc, "MultiCore/MC_graph")
        labels = {k.split("|")[1] for k in g.edges}
        never = ALL_ACTIONS - labels
        if never:
            ck.machinery_failure("MultiCore actions never taken in the dumped state graph: %s" % sorted(never))
        ck.note("actions_taken", sorted(labels))
        cover = g.edge_cover()
        ck.note("edge_cover", {"states": len(g.nodes), "transitions": len(g.edges), "behaviours": len(cover), "instances": len(g.insts)})
        ck.sample({"kind": "replayed-behaviour (edge cover)", "inst": g.insts[g.nodes[cover[len(cover) // 2][0]][0]],
                   "actions": ["%s(%d)" % (a, w) if w else a for a, w in cover[len(cover) // 2][1]]})
        # every maximal behaviour of the small configurations (pool processes exit atomically in join())
        gb = Graph(result("Graph_beh").printed)
        behs = []
        for cfgname, stride in beh_cfgs:
            rb = result(cfgname)
            ck.add_tlc(rb, "MultiCore/" + cfgname)
            hs = sorted((json.dumps(p["inst"], sort_keys=True), p["hist"]) for p in rb.printed)
            rb.printed = None
            off = ck.seed % stride
            sel = hs[off::stride]
            ck.note("behaviours_" + cfgname, {"maximal_behaviours": len(hs), "replayed": len(sel)})
            behs += [[gb.init_of[ik], [(a, w) for a, w in h]] for ik, h in sel]
        # simulated behaviours of larger instances (states carried in the history)
        rs = result("Sim")
        seen, sims = set(), []
        for p in rs.printed:
            k = json.dumps([p["inst"], [x[:2] for x in p["hist"]]])
            if k not in seen:
                seen.add(k)
                sims.append({"inst": p["inst"], "steps": p["hist"]})
        rs.printed = None
        ck.note("simulated_behaviours", {"distinct": len(sims), "largest_instance": max(([b["inst"]["nl"], b["inst"]["c"]] for b in sims), default=None)})
        lap("graphs-and-behaviours")
        for label, graph, paths, sep in (("edge-cover", g, cover, True), ("all-behaviours", gb, behs, False)):
            n = max(1, min(W, len(paths) // 40 + 1))
            base = graph.payload()
            for i in range(n):
                tasks.append(dict(base, op="replay", paths=paths[i::n], sep_exit=sep))
                tags.append(label)
        n = max(1, min(W, len(sims) // 20 + 1))
        for i in range(n):
            tasks.append({"op": "replay", "behaviours": sims[i::n], "sep_exit": True})
            tags.append("simulated")
    if tasks:
        try:
            res = pool.map_tasks("impl.c08", tasks, mode="jit", nproc=W, warm_first=False)
        except pool.WorkerError as e:
            ck.machinery_failure(str(e))
        lap("replay-and-fork-runs")
        for label in ("edge-cover", "all-behaviours", "simulated"):
            sub = [r for r, t in zip(res, tags) if t == label]
            if sub:
                ck.note("replayed_" + label.replace("-", "_"), collect_replay(ck, sub, label))
    if want("fork"):
        runs = []
        for t, rr in zip(tasks, res):
            if t["op"] != "forkrun":
                continue
            if not rr["ok"]:
                ck.machinery_failure("forkrun failed: %s\n%s" % (rr["error"], rr.get("tb", "")))
            o = rr["result"]
            if o["exit"] == 70:
                ck.machinery_failure("forkrun harness error: %s" % o["stderr"][-800:])
            if o["hung"]:
                ck.violation("hang", {"inst": o["inst"], "events": o["events"]}, key={"site": "baseclass._run_stdout_multi_core", "what": "hang", "kind": o["inst"]["kind"]})
                continue
            runs.append(normalize_run(o))
        try:
            t, acc, stuck = validate_event_runs(ck, runs, "fork")
        except tlc.TLCError as e:
            ck.machinery_failure(str(e))
        ck.add_tlc(t, "TraceMultiCore/fork")
        lap("fork-validate")
        for i, r in enumerate(runs):
            tid = i + 1
            if tid in acc:
                ck.traces += 1
                ck.evaluations += len(r["main"]) + len(r["writer"]) + sum(len(x) for x in r["workers"])
                if r["inst"]["fail"]:
                    ck.nontrivial += 1
            else:
                s = stuck.get(tid)
                ck.violation("trace-reject", {"run": r, "furthest": s},
                             key={"site": "baseclass.run_stdout", "kind": r["inst"]["kind"], "multi": r["inst"]["multi"],
                                  "stuck_main": (s or {}).get("nextM", {}).get("e"), "stuck_writer": (s or {}).get("nextR", {}).get("e")})
        ck.note("fork_runs", {"runs": len(runs), "accepted": len(acc), "with_failure": sum(1 for r in runs if r["inst"]["fail"]),
                              "exit_flushes_seen": sum(r["exit_flushes"] for r in runs)})
        ex = next((r for r in runs if r["inst"]["fail"] and r["inst"]["multi"]), runs[0])
        ck.sample({"kind": "recorded fork run", "inst": ex["inst"], "main": [m["e"] for m in ex["main"]], "writer": [[m["e"], m.get("k")] for m in ex["writer"]],
                   "workers": [[[m["e"], m.get("k")] for m in w] for w in ex["workers"]], "out": ex["out"], "exit": ex["exit"]})
        fork_corrupt_demo(ck, runs, acc)
        lap("fork-corrupt")

    # ---------------------------------------------------------------------------------------------
    # D. code -> spec (b): CLI runs of the real programs
    # ---------------------------------------------------------------------------------------------
    if f_cli is not None:
        try:
            data = f_cli.result()
        except (Machinery, tlc.TLCError, pool.WorkerError) as e:
            ck.machinery_failure(str(e))
        lap("cli-wait")
        cli_validate(ck, data, lap)

    # ---------------------------------------------------------------------------------------------
    # E. Reseed: model, histories executed in one real process, TraceReseed
    # ---------------------------------------------------------------------------------------------
    if f_rs is not None:
        try:
            data = f_rs.result()
        except (Machinery, tlc.TLCError, pool.WorkerError) as e:
            ck.machinery_failure(str(e))
        lap("reseed-wait")
        reseed_validate(ck, data, lap)

    ck.assumptions = [
        "multiprocessing.Pool / Manager().Queue() semantics (FIFO queue, AsyncResult.get re-raising the task's exception, pool processes "
        "flushing their std streams on normal exit) are trusted: the exhaustive interleavings are enumerated on the lock-step replay of "
        "the real orchestration code, real OS schedules are sampled",
        "the model does not rely on multiprocessing flushing the parent's std streams before each fork (CPython's popen_fork does): "
        "the explicit sys.stdout.flush() before the pool is required by the model",
    ]
    ck.finish()


if __name__ == "__main__":
    main()
