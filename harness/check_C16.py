"""C16: input allele filtering and prior-frequency options do what they say.

spec  : spec/AlleleFilter/{AlleleFilterOps,AlleleFilter,TraceAlleleFilter}.tla
bind  : spec -> code : every final state TLC reaches (record x filter x tag x field types) is rendered to VCF text and
                       passed to LocusPrior.from_variant_record(frequency_tag, allele_filter): alts, mask, frequencies
                       are compared with the model (exact rationals / 1e-9); every operator spelling goes through
                       parse_allele_filter;
        code -> spec : a covering subset of the states (every configuration, every distinct model outcome in it) is
                       run through `call`, `call-exact` and `call-pedigree` in-process on the repo's BAMs; every output
                       record (ALT, REFMASKED, FILTER, AFPRIOR, GT, AFP, GP) is validated by TraceAlleleFilter.tla.
edge  : AlleleFilterExact.tla states the same semantics over numbers exactly as the text spells them (BigNat digits +
        decimals); AlleleFilterEdge.tla enumerates records whose values / thresholds sit at the edges of the number line
        (0, 2^-149, 1e-12, 1e-7, 2e-7, neighbours of 0.5 and 0.0625 in the 7th..10th decimal, 2^24+1, 2^31-1; Float and
        Integer fields; all seven operators incl. exact equality) and checks UnitsAgree (exact model = unit model wherever
        both apply) and the order laws.  Every state the formats can carry faithfully (c16edge.admissible) is replayed
        into from_variant_record; a covering subset goes through the programs as `exact` trace events.
"""
import copy
import json
import os
import random
import sys
from fractions import Fraction

sys.path.insert(0, os.path.dirname(os.path.abspath(__file__)))
from vlib import env, tlc, pool, vcfgen, vcftext
from vlib.report import Check
from vlib.compare import close_prob
import c16edge as E

SPEC = os.path.join(env.SPEC, "AlleleFilter")
SITE = "LocusPrior.from_variant_record"
REF = "A" * 20
ALTS = ["AAAAAAAAAAGAAAAAATAA", "ACAAAAAAAAGAAAAAACAA"]
BAMS = ["@simple.sample1.bam", "@simple.sample2.deep.bam", "@simple.sample3.bam"]
SAMPLES = ["SAMPLE1", "SAMPLE2", "SAMPLE3"]
PLOIDY = 4


# ----------------------------------------------------------------------------
# rendering
# ----------------------------------------------------------------------------
def unit(typ):
    return Fraction(1, 2) if typ == "Float" else Fraction(1)


def num_text(q, variant=0):
    """exact dyadic/integer value -> text; `variant` picks one of the equivalent spellings"""
    q = Fraction(q)
    if q.denominator == 1:
        forms = ["%d" % q, "%d.0" % q, "%d." % q]
    else:
        base = repr(float(q))
        forms = [base, base[1:] if base.startswith("0.") else base]
    return forms[variant % len(forms)]


def filter_string(c, variant=0):
    if c["fld"] == "none":
        return None
    typ = c["rfType"] if c["fld"] == "RF" else c["afType"]
    return "%s%s%s" % (c["fld"], c["op"], num_text(c["thr"] * unit(typ), variant))


def header(rftype, aftype, samples=()):
    return vcfgen.header(
        [("CHR1", 60), ("CHR2", 60), ("CHR3", 60)],
        info=["REFMASKED", ("RF", "R", rftype, "allele values (R)"), ("AF", "A", aftype, "allele values (A)")],
        fmt=["GT"] if samples else [], samples=samples)


def record_line(c, rid):
    info = []
    if c["refmasked"]:
        info.append(("REFMASKED", True))
    if c["hasRF"]:
        info.append(("RF", [float(v * unit(c["rfType"])) if c["rfType"] == "Float" else int(v) for v in c["rf"]]))
    if c["hasAF"]:
        info.append(("AF", [float(v * unit(c["afType"])) if c["afType"] == "Float" else int(v) for v in c["af"]]))
    return vcfgen.record("CHR1", 6, REF, ALTS[: c["n"] - 1], info=info, id=rid, filt=".")


def config_key(c):
    return (c["fld"], c["op"] if c["fld"] != "none" else "", c["thr"] if c["fld"] != "none" else 0, c["tag"],
            c["rfType"] if (c["fld"] == "RF" or c["tag"] == "RF") else "-", c["afType"] if c["fld"] == "AF" else "-")


def outcome_class(s):
    return (tuple(s["kept"]), s["masked"], tuple(Fraction(x, s["den"]) if s["den"] else None for x in s["w"]), s["outcome"],
            altless_dot(s["c"]))


def altless_dot(c):
    """record without ALT whose A-length filter field is written '.' (what `mchap assemble` prints for REF-only loci)"""
    return c["n"] == 1 and c["fld"] == "AF" and c["hasAF"]


def abort_key(site, c, error):
    if altless_dot(c):
        return {"site": site, "shape": "altless-A-field-dot", "error": error}
    return {"site": site, "tag_type": c.get("rfType", c.get("ty", "-")) if c["tag"] == "RF" else "-", "error": error}


# ----------------------------------------------------------------------------
class Pending:
    """violations are emitted round-robin over their keys at the end, so that every distinct key is among
    the 25 that vlib.report prints in full"""

    def __init__(self, ck):
        self.ck, self.items = ck, []

    def violation(self, kind, detail, key=None):
        self.items.append((kind, detail, key))

    def flush(self):
        n, order = {}, []
        for i, (kind, detail, key) in enumerate(self.items):
            k = kind + json.dumps(key, sort_keys=True)
            n[k] = n.get(k, 0) + 1
            order.append((n[k], i))
        for _, i in sorted(order):
            self.ck.violation(*self.items[i][:2], key=self.items[i][2])
        self.items = []


class Phases:
    """wall time per phase of the check, written into the evidence (coverage.phase_s)"""

    def __init__(self, ck):
        import time

        self.ck, self.t, self.cur, self.d, self.time = ck, time.time(), "tlc+replay", {}, time

    def mark(self, name):
        now = self.time.time()
        self.d[self.cur] = round(self.d.get(self.cur, 0) + now - self.t, 1)
        self.t, self.cur = now, name
        self.ck.note("phase_s", dict(self.d))


def main():
    ck = Check("C16")
    ph = Phases(ck)
    global PV
    pend = Pending(ck)
    PV = pend.violation
    tier = ck.tier
    rnd = random.Random(ck.seed)
    ck.rule = (
        "TLC enumerates every record (1..3 alleles, REFMASKED flag, R-/A-length INFO values in {0,1,2} units or absent) x "
        "filter (field, 7 operator spellings, thresholds {0,1,2}) x prior tag x Float/Integer field types and steps the "
        "mechanism; each final state is replayed into LocusPrior.from_variant_record. Non-trivial = state where the filter "
        "removes an ALT, masks the reference, or the prior contains a zero / is undefined. Edge regime: AlleleFilterEdge "
        "enumerates records over four number neighbourhoods (zero: 0, 2^-149, 1e-12, 1e-7, 2e-7, 2^-24; half and sixteenth: "
        "neighbours in the 7th..10th decimal; int: 0, 1, 2, 2^24, 2^24+1, 2^31-1 in Integer and Float fields) x 7 operators x "
        "6 thresholds each, verdicts from AlleleFilterExact (numbers exactly as the text spells them, BigNat), replayed with "
        "several spellings per number (trailing zero, exponent) into from_variant_record and the programs."
    )
    cfgs = ["MC_quick.cfg", "MC_cross_quick.cfg"] if tier == "quick" else ["MC_thorough.cfg"]
    states = []
    try:
        for cfg in cfgs:
            r = tlc.run(SPEC, "AlleleFilter", cfg, timeout=1500, keep_stdout=False)
            ck.add_tlc(r, "AlleleFilter/" + cfg)
            if r.violated:
                PV("model", {"cfg": cfg, "invariant": r.violated, "text": r.error_text[:1500]},
                             key={"model": "AlleleFilter", "cfg": cfg})
            states.extend(r.printed)
        killed = 0
        for mod, cfg, inv in (("AlleleFilter", "Mutant_afshift.cfg", "AltRemovedIffFails"),
                              ("AlleleFilter", "Mutant_geq.cfg", "AltRemovedIffFails"),
                              ("AlleleFilter", "Mutant_maskweight.cfg", "StepwiseMatchesDeclarative"),
                              # numbers compared after dropping the decimals beyond the 6th / without the decimal point
                              ("AlleleFilterEdge", "Mutant_edge_trunc6.cfg", "UnitsAgree"),
                              ("AlleleFilterEdge", "Mutant_edge_mantissa.cfg", "Assumption")):
            m = tlc.run(SPEC, mod, cfg)
            if not (m.violated == inv or (inv == "Assumption" and m.violated and "Assumption" in m.violated)):
                ck.machinery_failure("mutant spec %s not killed (%s)" % (cfg, m.violated))
            killed += 1
        ck.note("mutant_specs_killed", killed)
    except tlc.TLCError as e:
        ck.machinery_failure(str(e))
    seen, uniq = set(), []
    for s in states:
        k = json.dumps(s["c"], sort_keys=True)
        if k not in seen:
            seen.add(k)
            uniq.append(s)
    states = uniq
    wdir = os.path.join(ck.wd, "tmp")
    os.makedirs(wdir, exist_ok=True)

    ph.mark("parse")
    # ---- 1. operator / value spellings through parse_allele_filter ----------
    strings, want = [], []
    for op in ("=", "==", ">", ">=", "<", "<=", "!="):
        for q in (Fraction(0), Fraction(1, 2), Fraction(1), Fraction(2), Fraction(5, 4), Fraction(12)):
            for v in range(3):
                strings.append("RF_1%s%s" % (op, num_text(q, v)))
                want.append((op if op != "=" else "==", q))
    rejects = ["RF<>1", "RF>0,5", "RF>", "RF=>1", "RF>1e3", "RF 1", ">1", "RF>-1", "RF>1.2.3", "RF~1"]
    rr = pool.map_tasks("impl.c16", [{"op": "parse", "strings": strings + rejects}], mode="jit", warm_first=False)[0]
    if not rr["ok"]:
        ck.machinery_failure("parse worker: %s" % rr["error"])
    for s, (op, q), o in zip(strings, want, rr["result"]):
        ck.evaluations += 1
        if o.get("field") != "RF_1" or o.get("op") != op or Fraction(o.get("value", -1)) != q:
            PV("filter-parse", {"string": s, "impl": o, "model": {"field": "RF_1", "op": op, "value": str(q)}},
                         key={"site": "parse_allele_filter", "op": op})
    for s, o in zip(rejects, rr["result"][len(strings):]):
        ck.evaluations += 1
        if "rejected" not in o:
            # a string outside the documented '<field><operator><value>' grammar must not silently become a predicate
            PV("filter-parse", {"string": s, "impl": o, "model": "rejected with ValueError"},
                         key={"site": "parse_allele_filter", "string": s})
    ck.note("filter_strings_parsed", len(strings) + len(rejects))

    ph.mark("from_variant_record")
    # ---- 2. spec -> code: every state through from_variant_record ----------
    groups = {}
    for i, s in enumerate(states):
        groups.setdefault((s["c"]["rfType"], s["c"]["afType"]), []).append(i)
    tasks, tidx = [], []
    for (rft, aft), idxs in sorted(groups.items()):
        for a in range(0, len(idxs), 400):
            sub = idxs[a:a + 400]
            text = header(rft, aft) + "".join(record_line(states[i]["c"], "S%d" % i) for i in sub)
            items = [{"tag": None if states[i]["c"]["tag"] == "none" else states[i]["c"]["tag"],
                      "filter": filter_string(states[i]["c"], i)} for i in sub]
            tasks.append({"op": "prior", "dir": wdir, "text": text, "items": items})
            tidx.append(sub)
    res = pool.map_tasks("impl.c16", tasks, mode="jit", warm_first=False)
    aborted = {}
    for sub, rr in zip(tidx, res):
        if not rr["ok"]:
            ck.machinery_failure("prior worker: %s" % rr["error"])
        for i, o in zip(sub, rr["result"]):
            s = states[i]
            c = s["c"]
            ck.evaluations += 1
            nontriv = len(s["kept"]) < c["n"] or s["masked"] or s["den"] == 0 or any(x == 0 for x in s["w"])
            if nontriv:
                ck.nontrivial += 1
            inst = {"record": record_line(c, "S%d" % i).strip(), "filter": filter_string(c, i),
                    "prior_frequencies": None if c["tag"] == "none" else c["tag"],
                    "RF_type": c["rfType"], "AF_type": c["afType"]}
            if "error" in o:
                tagtype = c["rfType"] if c["tag"] == "RF" else "-"
                aborted[(tagtype, o["etype"])] = aborted.get((tagtype, o["etype"]), 0) + 1
                PV("aborted", dict(inst, error=o["error"],
                                             model={"alts_kept": s["kept"], "masked": s["masked"], "weights": s["w"], "outcome": s["outcome"]}),
                             key=abort_key(SITE, c, o["etype"]))
                continue
            want_alts = [ALTS[k - 2] for k in s["kept"] if k > 1]
            if o["alts"] != want_alts or o["ref"] != REF:
                PV("alts", dict(inst, impl=o["alts"], model=want_alts), key={"site": SITE, "field": "alts", "fld": c["fld"], "op": c["op"]})
            if o["mask"] != s["masked"]:
                PV("mask", dict(inst, impl=o["mask"], model=s["masked"]), key={"site": SITE, "field": "mask", "fld": c["fld"], "op": c["op"]})
            if s["den"] == 0:
                okf = len(o["freq"]) == len(s["w"]) and all(x is None for x in o["freq"])
            else:
                okf = len(o["freq"]) == len(s["w"]) and all(
                    x is not None and close_prob(x, Fraction(w, s["den"])) for x, w in zip(o["freq"], s["w"]))
            if not okf:
                PV("frequencies", dict(inst, impl=o["freq"], model=["%d/%d" % (w, s["den"]) for w in s["w"]]),
                             key={"site": SITE, "field": "frequencies", "tag": c["tag"]})
    ck.traces += len(states)
    ck.note("states_replayed", len(states))
    ck.note("aborted_by_tag_type", {"%s/%s" % k: v for k, v in aborted.items()})
    ck.sample({"kind": "model-state", "state": states[len(states) // 2]})

    ph.mark("programs")
    # ---- 3. code -> spec: the three programs on a covering subset ------------
    byconf = {}
    for i, s in enumerate(states):
        byconf.setdefault(config_key(s["c"]), []).append(i)
    confs = sorted(byconf)
    per_class = 1 if tier == "quick" else 2
    max_conf = 30 if tier == "quick" else len(confs)
    if len(confs) > max_conf:
        # keep every (fld, op, tag, types) at least once, thresholds rotate
        rnd.shuffle(confs)
        pick, seen_k = [], set()
        for k in confs:
            kk = (k[0], k[1], k[3]) if tier == "quick" else (k[0], k[1], k[3], k[4], k[5])
            if kk not in seen_k:
                seen_k.add(kk)
                pick.append(k)
        for k in confs:
            if len(pick) >= max_conf:
                break
            if k not in pick:
                pick.append(k)
        # ... and both field types under a prior tag
        for typ in ("Integer", "Float"):
            if not any(k[3] == "RF" and k[4] == typ for k in pick[:max(max_conf, len(seen_k))]):
                pick.insert(0, next(k for k in confs if k[3] == "RF" and k[4] == typ))
        confs = sorted(set(pick[:max(max_conf, len(seen_k))]))
    programs = ["call", "call-exact", "call-pedigree"]
    runs = []
    run_ploidies = []
    mixed_files = write_mixed_ploidy_files(wdir)
    for k in confs:
        classes = {}
        for i in byconf[k]:
            classes.setdefault(outcome_class(states[i]), []).append(i)
        chosen = []
        for cl, idxs in sorted(classes.items(), key=lambda kv: str(kv[0])):
            chosen.extend(rnd.sample(idxs, min(per_class, len(idxs))))
        chosen.sort()
        c0 = states[chosen[0]]["c"]
        path = os.path.join(wdir, "in-%d.vcf" % len(runs))
        with open(path, "w") as fh:
            fh.write(header(c0["rfType"], c0["afType"]) + "".join(record_line(states[i]["c"], "S%d" % i) for i in chosen))
        fstr = filter_string(c0, len(runs))
        extra = []
        if c0["tag"] != "none":
            extra += ["--prior-frequencies", c0["tag"]]
        if fstr:
            extra += ["--filter-input-haplotypes", fstr]
        progs_here = programs if tier == "thorough" else ["call-exact", programs[2 * ((len(runs) // 2) % 2)]]
        # vary what the property quantifies over but the first version held fixed: the --report set (without GP/GL
        # call-exact takes its streaming path) and the inbreeding coefficient (with F > 0 a zero-prior allele has a
        # finite Gibbs conditional once a copy of it is in the genotype)
        ci = len(runs)
        report = ["AFPRIOR", "AFP", "GP"] if ci % 3 == 0 else ["AFPRIOR", "AFP"]
        inbred = ["--inbreeding", "0.3"] if (ci // 3) % 2 else []
        for prog in progs_here:
            # every second call-pedigree run (every third call / call-exact run): samples of ploidy 4 / 3 / 2
            mixed = (ci % 2 == 0) if prog == "call-pedigree" else (ci % 3 == 1)
            argv = ["--bam"] + BAMS + ["--ploidy", mixed_files["ploidy"] if mixed else str(PLOIDY), "--haplotypes", path, "--report"] + report + extra
            if prog != "call-pedigree":  # call-pedigree has no --inbreeding option
                argv += inbred
            if prog != "call-exact":
                argv += ["--mcmc-steps", "80", "--mcmc-burn", "40", "--mcmc-seed", str(1 + ck.seed)]
            if prog == "call-pedigree":
                if mixed:
                    argv += ["--sample-parents", mixed_files["parents"], "--gamete-ploidy", mixed_files["tau"], "--gamete-error", "0.1"]
                else:
                    argv += ["--sample-parents", "@simple.pedigree.132.txt"]
            runs.append((prog, argv, chosen, fstr, c0["tag"]))
            run_ploidies.append(MIXED_PLOIDIES if mixed else [PLOIDY] * 3)
    res = pool.map_tasks("impl.c16", [{"op": "program", "name": p, "argv": a} for p, a, _, _, _ in runs], mode="jit")
    events, meta = [], []
    run_aborts = {}
    for (prog, argv, chosen, fstr, tag), rr, plo in zip(runs, res, run_ploidies):
        if not rr["ok"]:
            ck.machinery_failure("program worker: %s" % rr["error"])
        o = rr["result"]
        ck.evaluations += 1
        if plo != [PLOIDY] * 3:
            ck.bump("program_runs_with_mixed_ploidy", 1)
        crashed = "error" in o
        if crashed:
            root = o["error"].split(":")[0]
            run_aborts[(prog, root)] = run_aborts.get((prog, root), 0) + 1
        recs = {}
        if not crashed:
            for r in vcftext.parse(o["out"]).records:
                recs[r.id] = r
        for i in chosen:
            s = states[i]
            c = {k: v for k, v in s["c"].items() if k not in ("setRF", "setAF")}
            ev = {"c": c, "exact": False, "prog": prog, "crashed": crashed, "missing": False, "out": empty_out()}
            if not crashed:
                r = recs.get("S%d" % i)
                if r is None:
                    ev["missing"] = True
                else:
                    ev["out"] = abstract_output(r, ck)
                    ev["out"]["ploidies"] = plo
                    ev["out"]["sampled"] = o.get("sampled", {}).get("S%d" % i, [])
            events.append(ev)
            meta.append({"prog": prog, "filter": fstr, "prior_frequencies": tag, "ploidies": plo, "record": record_line(s["c"], "S%d" % i).strip(),
                         "RF_type": s["c"]["rfType"], "AF_type": s["c"]["afType"], "error": o.get("error"),
                         "chain": o.get("chain"), "line": None if crashed or ev["missing"] else recs["S%d" % i].line})
    ph.mark("cli")
    # ---- the real command line (fresh interpreter): exit status 0 and the same records ----
    def data_lines(text):
        return [l for l in text.splitlines() if l and not l.startswith("##")]

    cli = []
    for (prog, argv, chosen, fstr, tag), rr in zip(runs, res):
        o = rr["result"]
        c0 = states[chosen[0]]["c"]
        flagged = "out" in o and ("\tNOA\t" in o["out"] or "\tAF0\t" in o["out"])
        want_int = tag != "none" and c0["rfType"] == "Integer" and not any(x[4] for x in cli)
        if (flagged and sum(1 for x in cli if not x[4]) < (3 if tier == "quick" else 9)
                and prog not in [x[0] for x in cli if not x[4]][-1:]) or want_int:
            cli.append((prog, argv, o, c0, want_int))
    cres = pool.map_tasks("impl.c16", [{"op": "cli", "argv": [p_] + a} for p_, a, _, _, _ in cli], mode="jit", warm_first=False)
    for (prog, argv, o, c0, _), rr in zip(cli, cres):
        if not rr["ok"]:
            ck.machinery_failure("cli worker: %s" % rr["error"])
        r = rr["result"]
        ck.evaluations += 1
        tagtype = c0["rfType"] if c0["tag"] == "RF" else "-"
        detail = {"argv": [prog] + [a for a in argv if not a.startswith("@")][-8:], "exit_status": r["rc"], "stderr_tail": r["err"][-400:]}
        if r["rc"] != 0:
            last = [l for l in r["err"].strip().splitlines() if l.strip()][-1:] or ["?"]
            PV("aborted", detail, key={"site": "cli:" + prog, "tag_type": tagtype, "error": last[0].split(":")[0].split(".")[-1]})
        elif "out" in o and data_lines(r["out"]) != data_lines(o["out"]):
            PV("cli-differs", detail, key={"site": "cli:" + prog, "field": "records"})
    ck.note("cli_runs", len(cli))
    ck.note("program_runs", len(runs))
    ck.note("program_runs_aborted", {"%s/%s" % k: v for k, v in run_aborts.items()})
    ph.mark("edge")
    edge_events, edge_meta = edge_regime(ck, wdir, rnd)
    events += edge_events
    meta += edge_meta
    ph.mark("golden+trace")
    # the repo's own mock input with the options used by its tests (thousandths as the common unit)
    gold_events, gold_meta = golden_events(ck)
    events += gold_events
    meta += gold_meta
    validate(ck, events, meta)
    try:
        import shutil

        shutil.rmtree(wdir, ignore_errors=True)
    except Exception:
        pass
    ph.mark("end")
    pend.flush()
    ck.exhaustive = True
    ck.assumptions = [
        "TLC and the CommunityModules Json/IOUtils operators are correct",
        "values and thresholds are integers or dyadic rationals (text, float32 and float64 agree), or (edge regime) decimal texts "
        "whose order against the threshold survives the single-precision storage of INFO Float values (c16edge.admissible); "
        "non-dyadic boundaries such as RF=0.3 against 'RF>=0.3' are not generated",
        "records with individually missing INFO entries or without the frequency tag are outside the stated clauses and not generated",
        "program level: a covering subset of states (every configuration in thorough; every distinct model outcome per configuration) on the repo's three tetraploid BAMs",
    ]
    ck.finish()


# ----------------------------------------------------------------------------
# the edges of the number line (AlleleFilterExact / AlleleFilterEdge)
# ----------------------------------------------------------------------------
def edge_header(ty, samples=()):
    return header(ty, ty, samples)


def edge_record(s, rid, variant):
    x, ty = s["x"], s["ty"]
    info = []
    if x["refmasked"]:
        info.append(("REFMASKED", True))
    if x["hasRF"]:
        info.append(("RF", [E.value_text(q, variant + j, ty) for j, q in enumerate(x["rf"])]))
    if x["hasAF"]:
        info.append(("AF", [E.value_text(q, variant + j, ty) for j, q in enumerate(x["af"])]))
    return vcfgen.record("CHR1", 6, REF, ALTS[: x["n"] - 1], info=info, id=rid, filt=".")


def edge_filter(s, variant):
    x = s["x"]
    return "%s%s%s" % (x["fld"], x["op"], E.thr_text(x["thr"], variant))


def edge_regime(ck, wdir, rnd):
    tier = ck.tier
    try:
        r = tlc.run(SPEC, "AlleleFilterEdge", "MC_edge_quick.cfg" if tier == "quick" else "MC_edge_thorough.cfg",
                    timeout=3000, keep_stdout=False)
    except tlc.TLCError as e:
        ck.machinery_failure(str(e))
    ck.add_tlc(r, "AlleleFilterEdge")
    if r.violated:
        PV("model", {"module": "AlleleFilterEdge", "invariant": r.violated, "text": r.error_text[:1500]},
           key={"model": "AlleleFilterEdge"})
        return [], []
    seen, states = set(), []
    for s in r.printed:
        s["x"] = {k: v for k, v in s["x"].items() if k not in ("setRF", "setAF")}
        k = json.dumps([s["x"], s["ty"]], sort_keys=True)
        if k not in seen:
            seen.add(k)
            states.append(s)
    for s in states:
        if not E.agrees(s):
            ck.machinery_failure("edge: BigNat model and rational recomputation disagree on %s" % json.dumps(s)[:600])
    adm = [s for s in states if E.state_admissible(s)]
    ck.note("edge_states", len(states))
    ck.note("edge_states_carried_faithfully", len(adm))
    # every (value, operator, threshold) triple decided by the model, by verdict
    triples = {}
    for s in adm:
        x = s["x"]
        for q in E.tested(x):
            holds = E._OPS[x["op"]](E.frac(q), E.frac(x["thr"]))
            triples[(s["ty"], E.plain(q), x["op"], E.plain(x["thr"]))] = holds
    ck.note("edge_triples", {"total": len(triples), "holding": sum(1 for v in triples.values() if v),
                             "equal_value_and_threshold": sum(1 for k in triples if Fraction(k[1]) == Fraction(k[3]))})

    # ---- spec -> code: from_variant_record ----
    tasks, tidx = [], []
    for ty in ("Float", "Integer"):
        idxs = [i for i, s in enumerate(adm) if s["ty"] == ty]
        for a in range(0, len(idxs), 400):
            sub = idxs[a:a + 400]
            text = edge_header(ty) + "".join(edge_record(adm[i], "E%d" % i, i) for i in sub)
            items = [{"tag": None if adm[i]["x"]["tag"] == "none" else "RF", "filter": edge_filter(adm[i], i)} for i in sub]
            tasks.append({"op": "prior", "dir": wdir, "text": text, "items": items})
            tidx.append(sub)
    res = pool.map_tasks("impl.c16", tasks, mode="jit", warm_first=False)
    for sub, rr in zip(tidx, res):
        if not rr["ok"]:
            ck.machinery_failure("edge prior worker: %s" % rr["error"])
        for i, o in zip(sub, rr["result"]):
            s = adm[i]
            x = s["x"]
            ck.evaluations += 1
            mf = E.model_freqs(s)
            if len(s["kept"]) < x["n"] or s["masked"] or mf is None or any(q == 0 for q in mf):
                ck.nontrivial += 1
            inst = {"record": edge_record(s, "E%d" % i, i).strip(), "filter": edge_filter(s, i),
                    "prior_frequencies": None if x["tag"] == "none" else "RF", "field_type": s["ty"], "cluster": s["cl"]}
            reg = "edge:" + s["cl"]
            if "error" in o:
                PV("aborted", dict(inst, error=o["error"], model={"alts_kept": s["kept"], "masked": s["masked"], "outcome": s["outcome"]}),
                   key=dict(abort_key(SITE, dict(x, ty=s["ty"]), o["etype"]), regime=reg))
                continue
            want_alts = [ALTS[k - 2] for k in s["kept"] if k > 1]
            if o["alts"] != want_alts or o["ref"] != REF:
                PV("alts", dict(inst, impl=o["alts"], model=want_alts),
                   key={"site": SITE, "field": "alts", "fld": x["fld"], "op": x["op"], "regime": reg})
            if o["mask"] != s["masked"]:
                PV("mask", dict(inst, impl=o["mask"], model=s["masked"]),
                   key={"site": SITE, "field": "mask", "fld": x["fld"], "op": x["op"], "regime": reg})
            if mf is None:
                okf = len(o["freq"]) == len(s["w"]) and all(v is None for v in o["freq"])
            else:
                okf = len(o["freq"]) == len(mf) and all(E.freq_close(v, q, s["ty"]) for v, q in zip(o["freq"], mf))
            if not okf:
                PV("frequencies", dict(inst, impl=o["freq"], model=None if mf is None else [str(q) for q in mf]),
                   key={"site": SITE, "field": "frequencies", "tag": x["tag"], "regime": reg})
    ck.traces += len(adm)
    ck.sample({"kind": "edge-state", "state": adm[len(adm) // 2], "record": edge_record(adm[len(adm) // 2], "E", 0).strip(),
               "filter": edge_filter(adm[len(adm) // 2], 0)})

    # ---- code -> spec: the programs on a covering subset ----
    byconf = {}
    for i, s in enumerate(adm):
        x = s["x"]
        if E.milli_safe(s):
            byconf.setdefault((s["cl"], s["ty"], x["op"], x["fld"], E.plain(x["thr"]), x["tag"]), []).append(i)
    confs = sorted(byconf)
    if tier == "quick":
        # every (cluster, field type, operator) once; field kind and threshold rotate within it
        groups = {}
        for k in confs:
            groups.setdefault(k[:3], []).append(k)
        pick = []
        for n, (g, ks) in enumerate(sorted(groups.items())):
            ks.sort()
            pick.append(ks[(n * 5 + 1) % len(ks)])
        confs = pick
    runs, lines = [], {}
    for ci, k in enumerate(confs):
        classes = {}
        for i in byconf[k]:
            s = adm[i]
            classes.setdefault((tuple(s["kept"]), s["masked"], tuple(s["usable"]), s["x"]["n"] == 1 and s["x"]["hasAF"]), []).append(i)
        chosen = sorted(rnd.choice(idxs) for _, idxs in sorted(classes.items(), key=lambda kv: str(kv[0])))
        s0 = adm[chosen[0]]
        path = os.path.join(wdir, "edge-%d.vcf" % ci)
        for i in chosen:
            lines[(path, i)] = edge_record(adm[i], "E%d" % i, i + ci)
        with open(path, "w") as fh:
            fh.write(edge_header(s0["ty"]) + "".join(lines[(path, i)] for i in chosen))
        fstr = edge_filter(s0, ci)
        extra = ["--filter-input-haplotypes", fstr] + (["--prior-frequencies", "RF"] if s0["x"]["tag"] == "RF" else [])
        report = ["AFPRIOR", "AFP", "GP"] if ci % 3 == 0 else ["AFPRIOR", "AFP"]
        progs = ["call", "call-exact", "call-pedigree"] if tier == "thorough" and ci % 4 == 0 else \
            ["call-exact"] + ([["call", "call-pedigree"][(ci // 2) % 2]] if ci % 2 == 0 else [])
        for prog in progs:
            argv = ["--bam"] + BAMS + ["--ploidy", str(PLOIDY), "--haplotypes", path, "--report"] + report + extra
            if prog != "call-exact":
                argv += ["--mcmc-steps", "80", "--mcmc-burn", "40", "--mcmc-seed", str(1 + ck.seed)]
            if prog == "call-pedigree":
                argv += ["--sample-parents", "@simple.pedigree.132.txt"]
            runs.append((prog, argv, chosen, fstr, s0))
    res = pool.map_tasks("impl.c16", [{"op": "program", "name": p, "argv": a} for p, a, _, _, _ in runs], mode="jit")
    events, meta = [], []
    for (prog, argv, chosen, fstr, s0), rr in zip(runs, res):
        if not rr["ok"]:
            ck.machinery_failure("edge program worker: %s" % rr["error"])
        o = rr["result"]
        ck.evaluations += 1
        crashed = "error" in o
        recs = {} if crashed else {r_.id: r_ for r_ in vcftext.parse(o["out"]).records}
        for i in chosen:
            s = adm[i]
            ev = {"c": s["x"], "exact": True, "prog": prog, "crashed": crashed, "missing": False, "out": empty_out()}
            if not crashed:
                r_ = recs.get("E%d" % i)
                if r_ is None:
                    ev["missing"] = True
                else:
                    ev["out"] = abstract_output(r_, ck)
                    ev["out"]["sampled"] = o.get("sampled", {}).get("E%d" % i, [])
            events.append(ev)
            meta.append({"prog": prog, "filter": fstr, "prior_frequencies": None if s["x"]["tag"] == "none" else "RF",
                         "record": lines[(argv[argv.index("--haplotypes") + 1], i)],
                         "RF_type": s["ty"], "AF_type": s["ty"], "cluster": s["cl"], "error": o.get("error"), "chain": o.get("chain"),
                         "line": None if crashed or ev["missing"] else recs["E%d" % i].line})
    ck.note("edge_program_runs", len(runs))
    ck.note("edge_program_records", len(events))
    return events, meta


def empty_out():
    return {"kept": [], "extra_alt": False, "refmasked": False, "filters": [], "afprior": [], "gts": [], "afp": [], "gp": [],
            "ploidies": [], "sampled": []}


MIXED_PLOIDIES = [4, 3, 2]


def write_mixed_ploidy_files(wdir):
    """SAMPLE1 (4x) x SAMPLE3 (2x) -> SAMPLE2 (3x): ploidy, parents and gamete-ploidy files for call-pedigree"""
    files = {"ploidy": "SAMPLE1\t4\nSAMPLE2\t3\nSAMPLE3\t2\n",
             "parents": "SAMPLE1\t.\t.\nSAMPLE2\tSAMPLE1\tSAMPLE3\nSAMPLE3\t.\t.\n",
             "tau": "SAMPLE1\t2\t2\nSAMPLE2\t2\t1\nSAMPLE3\t1\t1\n"}
    out = {}
    for k, text in files.items():
        out[k] = os.path.join(wdir, "mixed-%s.txt" % k)
        with open(out[k], "w") as fh:
            fh.write(text)
    return out


def abstract_output(r, ck):
    inp = [REF] + ALTS
    kept, extra = [1], r.ref != REF
    for a in r.alts:
        if a in inp:
            kept.append(inp.index(a) + 1)
        else:
            extra = True

    def mil(t):
        try:
            return [-1 if x is None else x for x in vcftext.milli(t)]
        except ValueError:
            return [-2]

    gts, afp, gp = [], [], []
    ngen = None
    for smp in r.samples:
        al, _ = vcftext.gt(smp.get("GT", "."))
        gts.append([-1 if a is None else a for a in al])
        afp.append(mil(smp.get("AFP")))
        gp.append(mil(smp.get("GP")))
    return {"kept": kept, "extra_alt": extra, "refmasked": "REFMASKED" in r.info, "filters": list(r.filters),
            "afprior": mil(r.info.get("AFPRIOR")), "gts": gts, "afp": afp, "gp": gp, "ploidies": [], "sampled": []}


def golden_events(ck):
    """mock.input.frequencies.vcf through the three programs with the option sets of the repo's tests"""
    data = os.path.join(env.REPO, "mchap", "tests", "test_io", "data", "mock.input.frequencies.vcf")
    v = vcftext.read(data)
    optsets = [("AFP", "AFP>=0.1"), ("AFP", None), (None, "AFP<0.45"), ("AFP", "AFP>0.2")]
    runs = []
    for tag, flt in optsets:
        extra = (["--prior-frequencies", tag] if tag else []) + (["--filter-input-haplotypes", flt] if flt else [])
        for prog in ("call", "call-exact", "call-pedigree"):
            argv = ["--bam"] + BAMS + ["--ploidy", "4", "--haplotypes", "@mock.input.frequencies.vcf", "--report", "AFPRIOR", "AFP", "GP"] + extra
            if prog != "call-exact":
                argv += ["--mcmc-steps", "80", "--mcmc-burn", "40", "--mcmc-seed", str(1 + ck.seed)]
            if prog == "call-pedigree":
                argv += ["--sample-parents", "@simple.pedigree.132.txt"]
            runs.append((prog, argv, tag, flt))
    res = pool.map_tasks("impl.c16", [{"op": "program", "name": p, "argv": a} for p, a, _, _ in runs], mode="jit", warm_first=False)
    events, meta = [], []
    import re

    for (prog, argv, tag, flt), rr in zip(runs, res):
        if not rr["ok"]:
            ck.machinery_failure("program worker: %s" % rr["error"])
        o = rr["result"]
        crashed = "error" in o
        recs = {} if crashed else {r.id: r for r in vcftext.parse(o["out"]).records}
        for r in v.records:
            vals = vcftext.milli(r.info["AFP"])
            c = {"n": 1 + len(r.alts), "refmasked": "REFMASKED" in r.info, "fld": "none", "op": "==", "thr": 0,
                 "tag": "RF" if tag else "none", "hasRF": True, "rf": vals, "hasAF": False, "af": [],
                 "rfType": "Float", "afType": "Float"}
            if flt:
                m = re.match(r"AFP(>=|<=|>|<|==|=|!=)([\d.]+)$", flt)
                c.update(fld="RF", op=m.group(1), thr=vcftext.milli(m.group(2))[0])
            ev = {"c": c, "exact": False, "prog": prog, "crashed": crashed, "missing": False, "out": empty_out()}
            if not crashed:
                rr_ = recs.get(r.id)
                if rr_ is None:
                    ev["missing"] = True
                else:
                    inp = [r.ref] + r.alts
                    out = abstract_output(rr_, ck)
                    out["kept"] = [1] + [inp.index(a) + 1 for a in rr_.alts if a in inp]
                    out["extra_alt"] = rr_.ref != r.ref or any(a not in inp for a in rr_.alts)
                    ev["out"] = out
            events.append(ev)
            meta.append({"prog": prog, "filter": flt, "prior_frequencies": tag, "record": r.line, "RF_type": "Float", "AF_type": "-",
                         "error": o.get("error"), "chain": o.get("chain"), "line": None if crashed or ev["missing"] else recs[r.id].line,
                         "golden_input": True})
    return events, meta


def validate(ck, events, meta):
    tf = os.path.join(ck.wd, "trace.json")
    with open(tf, "w") as fh:
        json.dump(events, fh)
    try:
        t = tlc.run(SPEC, "TraceAlleleFilter", "Trace.cfg", workers=1, extra_env={"TRACE_FILE": tf}, timeout=1500)
    except tlc.TLCError as e:
        ck.machinery_failure(str(e))
    ck.add_tlc(t, "TraceAlleleFilter")
    consumed = [p for p in t.printed if "consumed" in p]
    if not consumed or consumed[0]["consumed"] != len(events):
        ck.machinery_failure("trace not fully consumed: %s of %d" % (consumed, len(events)))
    for p in t.printed:
        if "reject" in p:
            e, m = events[p["reject"] - 1], meta[p["reject"] - 1]
            c = e["c"]
            if p["clause"] == "RunAborted":
                root = (m.get("chain") or [m.get("error") or "?"])[-1].split(":")[0]
                PV("aborted", m, key=abort_key("program:" + e["prog"], dict(c, rfType=m.get("RF_type", "-")), root))
            else:
                key = {"site": "program:" + e["prog"], "clause": p["clause"], "fld": c["fld"], "tag": c["tag"]}
                if e["exact"]:
                    key["regime"] = "edge:" + m.get("cluster", "?")
                PV("trace-reject", dict(m, clause=p["clause"], output=e["out"]), key=key)
    ck.traces += len(events)
    ck.evaluations += len(events)
    ck.note("program_records_validated", len(events))
    ck.note("program_records_filtered_NOA_AF0", sum(1 for e in events if set(e["out"]["filters"]) & {"NOA", "AF0"}))
    rejected = {p["reject"] - 1 for p in t.printed if "reject" in p}
    good = [e for i, e in enumerate(events) if i not in rejected and not e["crashed"] and not e["missing"]
            and "PASS" in e["out"]["filters"] and len(e["out"]["kept"]) >= 2]
    if not good:
        if not ck.violations and not PV.__self__.items:
            ck.machinery_failure("no accepted program record to corrupt")
        return
    ck.sample({"kind": "program-record", "event": good[0]})
    # binding demonstration: corrupted recorded outputs must be rejected by the right clause
    bads = []
    b = copy.deepcopy(good[0]); b["out"]["refmasked"] = not b["out"]["refmasked"]; bads.append((b, "RefKeptButMasked"))
    b = copy.deepcopy(good[0]); b["out"]["kept"] = b["out"]["kept"][:-1]; bads.append((b, "AltRemovedIffFails"))
    b = copy.deepcopy(good[0]); b["out"]["filters"] = ["AF0"]; bads.append((b, "FilterWithoutCause"))
    withzero = [e for e in good if any(x == 0 for x in e["out"]["afprior"])]
    if withzero:
        b = copy.deepcopy(withzero[0])
        j = b["out"]["afprior"].index(0)
        b["out"]["gts"][0][0] = j
        bads.append((b, "NoMaskedInGT"))
        b = copy.deepcopy(withzero[0])
        b["out"]["afp"][0][j] = 5
        bads.append((b, "ZeroPosteriorAFP"))
    b = copy.deepcopy(good[0])
    if b["out"]["afprior"] and b["out"]["afprior"][0] >= 0:
        b["out"]["afprior"][0] += 7
        bads.append((b, "AFPRIOR"))
    # ... and a record of the edge regime (exact instance) that lost / regained an allele
    gx = [e for e in good if e["exact"] and len(e["out"]["kept"]) >= 2]
    if gx:
        b = copy.deepcopy(gx[0]); b["out"]["kept"] = b["out"]["kept"][:-1]; bads.append((b, "AltRemovedIffFails"))
    gx = [e for e in events if e["exact"] and not e["crashed"] and not e["missing"] and e["c"]["n"] == 3 and len(e["out"]["kept"]) == 2
          and 2 in e["out"]["kept"]]
    if gx:
        b = copy.deepcopy(gx[0]); b["out"]["kept"] = [1, 2, 3]; bads.append((b, "AltRemovedIffFails"))
    tfb = os.path.join(ck.wd, "trace-corrupt.json")
    with open(tfb, "w") as fh:
        json.dump([b for b, _ in bads], fh)
    t = tlc.run(SPEC, "TraceAlleleFilter", "Trace.cfg", workers=1, extra_env={"TRACE_FILE": tfb})
    rej = {p["reject"]: p["clause"] for p in t.printed if "reject" in p}
    for i, (_, clause) in enumerate(bads):
        if rej.get(i + 1) != clause:
            ck.machinery_failure("corrupted trace %d not rejected by %s (got %s)" % (i + 1, clause, rej.get(i + 1)))
    ck.note("corrupted_traces_rejected", len(bads))


if __name__ == "__main__":
    main()
