"""C17: the pedigree inheritance model is a proper probability distribution.

spec  : spec/common/PedInheritance.tla (first-principles model), spec/Inheritance/Inheritance.tla
        (instance walk + invariants), spec/Inheritance/TraceInheritance.tla (code -> spec)
bind  : every finished walk of TLC (one instance, all unordered progeny / gametes) ->
        trio_log_pmf / gamete_log_pmf / log_unknown_dosage_prior / trio_valid / duo_valid (jit);
        seeded random trios recorded from the implementation -> TraceInheritance.tla
"""
import json
import math
import os
import sys
from fractions import Fraction

sys.path.insert(0, os.path.dirname(os.path.abspath(__file__)))
from vlib import env, tlc, pool
from vlib.report import Check
from vlib.compare import close_log, frac

SPEC = os.path.join(env.SPEC, "Inheritance")
MUTANTS = [("Mutant_errterm.cfg", "TrioSumsToOne"), ("Mutant_nodr.cfg", "PositiveIffValid"),
           ("Mutant_hyperden.cfg", "GameteSumsToOne")]


def shape_key(s):
    return "%dx%d->tau(%d,%d)" % (len(s["Gp"]), len(s["Gq"]), s["tp"], s["tq"])


def feature(s):
    return {
        "shape": shape_key(s),
        "lambda": bool(s["lp"][0] or s["lq"][0]),
        "error": "zero" if (s["ep"][0] == 0 and s["eq"][0] == 0) else "mixed",
    }


def run_pool(ck, tasks, site):
    """A worker that dies (segfault / endless loop in the code under test on a model-generated
    input) is a finding about the implementation, not a machinery failure."""
    try:
        return pool.map_tasks("impl.c17", tasks, mode="jit")
    except pool.WorkerError as e:
        ck.violation("impl-crash", {"site": site, "error": str(e)[-800:]}, key={"site": site, "kind": "worker-died"})
        ck.finish()


def vcf_children(K, P):
    """sorted allele vectors of length P over K alleles in VCF genotype order"""
    import itertools
    gs = [list(g) for g in itertools.combinations_with_replacement(range(K), P)]
    gs.sort(key=lambda g: sum(math.comb(a + i, i + 1) for i, a in enumerate(g)))
    return gs


def main():
    ck = Check("C17")
    tier = ck.tier
    ck.rule = (
        "TLC walks every unordered progeny genotype (kind trio) / gamete (kind gamete) of every instance "
        "(family shape x parent genotypes x lambda x error x frequencies) and checks the invariants in each state; "
        "each finished walk is replayed into the compiled implementation value by value. "
        "Non-trivial = (instance, progeny) with a known parent and model probability strictly between 0 and 1."
    )
    try:
        r = tlc.run(SPEC, "Inheritance", "MC_%s.cfg" % tier, timeout=3000 if tier == "quick" else 7000)
        ck.add_tlc(r, "Inheritance")
        if r.violated:
            ck.violation("model", {"invariant": r.violated, "text": r.error_text[:1500]}, key={"model": "Inheritance"})
        insts = r.printed
        killed = 0
        for cfg, inv in MUTANTS:
            m = tlc.run(SPEC, "Inheritance", cfg, timeout=600)
            if m.violated != inv:
                ck.machinery_failure("mutant spec %s not killed (got %s)" % (cfg, m.violated))
            killed += 1
        ck.note("mutant_specs_killed", killed)
    except tlc.TLCError as e:
        ck.machinery_failure(str(e))
    if not insts:
        ck.machinery_failure("TLC printed no finished walk")

    trios = [s for s in insts if s["kind"] == "trio"]
    gams = [s for s in insts if s["kind"] == "gamete"]
    ck.note("trio_instances", len(trios))
    ck.note("gamete_instances", len(gams))
    ck.note("shapes", sorted(set(shape_key(s) for s in insts)))

    # ---- spec -> code: every trio walk ------------------------------------
    CH = 150
    chunks = [trios[i:i + CH] for i in range(0, len(trios), CH)]
    res = run_pool(ck, [{"op": "trio_rows", "insts": c} for c in chunks], "trio_log_pmf")
    nz_sum_bad = 0
    for c, rr in zip(chunks, res):
        if not rr["ok"]:
            ck.violation("impl-error", {"error": rr["error"], "first": c[0]},
                         key=dict(feature(c[0]), site="trio_log_pmf", kind="exception"))
            continue
        for s, o in zip(c, rr["result"]):
            ck.traces += 1
            row = [frac(x) for x in s["row"]]
            lam_ok = s["lp"][0] < s["lp"][1] and s["lq"][0] < s["lq"][1]
            err_free = ((not s["Gp"] or s["tp"] == 0 or s["ep"][0] == 0)
                        and (not s["Gq"] or s["tq"] == 0 or s["eq"][0] == 0))
            tot = 0.0
            for i, (q, l) in enumerate(zip(row, o["l"])):
                ck.evaluations += 1
                if (s["Gp"] or s["Gq"]) and 0 < q < 1:
                    ck.nontrivial += 1
                if not close_log(l, q):
                    ck.violation("trio-pmf", {"instance": {k: s[k] for k in s if k not in ("row", "valid", "duop", "duoq", "iid")},
                                              "progeny_index": i, "impl_log": l, "model": str(q)},
                                 key=dict(feature(s), site="trio_log_pmf"))
                tot += math.exp(l) if l > -math.inf else 0.0
                # the property's own clause on the implementation alone
                if lam_ok and err_free and s["Gp"] and s["Gq"]:
                    if (l > -math.inf) != o["valid"][i]:
                        ck.violation("positive-iff-valid", {"instance": s["Gp"], "Gq": s["Gq"], "progeny_index": i,
                                                            "impl_log": l, "trio_valid": o["valid"][i]},
                                     key=dict(feature(s), site="trio_valid-vs-trio_log_pmf"))
            if abs(tot - 1.0) > 1e-9:
                nz_sum_bad += 1
                ck.violation("impl-sum", {"sum": tot, "Gp": s["Gp"], "Gq": s["Gq"]},
                             key=dict(feature(s), site="trio_log_pmf-sum"))
            if lam_ok:
                for name, fn in (("valid", "trio_valid"), ("duop", "duo_valid"), ("duoq", "duo_valid")):
                    if not o[name]:
                        continue
                    for i, (a, b) in enumerate(zip(o[name], s[name])):
                        ck.evaluations += 1
                        if a != b:
                            ck.violation("validity", {"fn": fn, "side": name, "Gp": s["Gp"], "Gq": s["Gq"], "tp": s["tp"],
                                                      "tq": s["tq"], "lp": s["lp"], "lq": s["lq"], "progeny_index": i,
                                                      "impl": a, "model": b},
                                         key=dict(feature(s), site=fn))
            # PEDERR = fraction of steps failing the validity test, with the right gamete's tau / lambda for the known parent
            if "pederr" in o:
                n_steps = len(s["row"])
                for name, got in zip(("valid", "duop", "duoq"), o["pederr"]):
                    want = sum(1 for v in s[name] if not v) / n_steps
                    ck.evaluations += 1
                    if abs(got - want) > 1e-12:
                        ck.violation("pederr", {"parents_known": {"valid": "both", "duop": "p only", "duoq": "q only"}[name], "Gp": s["Gp"], "Gq": s["Gq"],
                                                "tp": s["tp"], "tq": s["tq"], "lp": s["lp"], "lq": s["lq"], "impl": got, "model": want},
                                     key=dict(feature(s), site="PedigreeAllelesMultiTrace.incongruence", known=name))
    # PEDERR while the parents move: instances that share everything but the parental genotypes form a trace in which
    # consecutive steps mostly differ in the last alleles of one parent; the progeny is held at one genotype
    groups = {}
    for s in trios:
        if s["Gp"] and s["Gq"] and s["lp"][0] < s["lp"][1] and s["lq"][0] < s["lq"][1] and s.get("valid"):
            groups.setdefault((s["K"], s["tp"], s["tq"], tuple(s["lp"]), tuple(s["lq"]), len(s["Gp"]), len(s["Gq"])), []).append(s)
    walks, wants = [], []
    for key, grp in sorted(groups.items()):
        if len(grp) < 2:
            continue
        grp = sorted(grp, key=lambda s: (s["Gq"], s["Gp"]))
        order = vcf_children(key[0], key[1] + key[2])
        for ci in sorted({0, len(order) // 2, len(order) - 1, next((i for i, v in enumerate(grp[0]["valid"]) if v), 0)}):
            walks.append({"K": key[0], "tp": key[1], "tq": key[2], "lp": list(key[3]), "lq": list(key[4]),
                          "steps": [[s["Gp"], s["Gq"]] for s in grp], "child": order[ci]})
            wants.append(sum(1 for s in grp if not s["valid"][ci]) / len(grp))
    if walks:
        rr = run_pool(ck, [{"op": "pederr_walks", "walks": walks}], "pederr_walks")[0]
        if not rr["ok"]:
            ck.violation("impl-error", {"error": rr["error"]}, key={"site": "PedigreeAllelesMultiTrace.incongruence", "kind": "exception"})
        else:
            for w, want, got in zip(walks, wants, rr["result"]):
                ck.evaluations += 1
                if abs(got - want) > 1e-12:
                    ck.violation("pederr", {"parents_known": "both, parents change between steps", "walk": w, "impl": got, "model": want},
                                 key={"site": "PedigreeAllelesMultiTrace.incongruence", "known": "moving-parents",
                                      "ploidies": [len(w["steps"][0][0]), len(w["steps"][0][1]), w["tp"] + w["tq"]]})
        ck.note("pederr_moving_parent_walks", len(walks))
    if trios:
        s = trios[len(trios) // 2]
        ck.sample({"kind": "trio-walk", "instance": {k: s[k] for k in ("K", "Gp", "Gq", "tp", "tq", "lp", "lq", "ep", "eq", "f")},
                   "model_row": s["row"], "model_valid": s["valid"]})

    # ---- spec -> code: every gamete walk ----------------------------------
    chunks = [gams[i:i + 200] for i in range(0, len(gams), 200)]
    res = run_pool(ck, [{"op": "gamete_rows", "insts": c} for c in chunks], "gamete_log_pmf")
    for c, rr in zip(chunks, res):
        if not rr["ok"]:
            ck.violation("impl-error", {"error": rr["error"], "first": c[0]}, key={"site": "gamete_log_pmf", "kind": "exception"})
            continue
        for s, o in zip(c, rr["result"]):
            ck.traces += 1
            row = [frac(x) for x in s["row"]]
            iid = [frac(x) for x in s["iid"]]
            tot = 0.0
            for i, q in enumerate(row):
                ck.evaluations += 1
                if 0 < q < 1:
                    ck.nontrivial += 1
                for lay in ("l1", "l2"):
                    if not close_log(o[lay][i], q):
                        ck.violation("gamete-pmf", {"Gp": s["Gp"], "tau": s["tp"], "lambda": s["lp"], "gamete_index": i,
                                                    "layout": lay, "impl_log": o[lay][i], "model": str(q)},
                                     key={"site": "gamete_log_pmf", "tau": s["tp"], "ploidy": len(s["Gp"]), "lambda": bool(s["lp"][0])})
                if not close_log(o["iid"][i], iid[i]):
                    ck.violation("iid-pmf", {"f": s["f"], "tau": s["tp"], "gamete_index": i, "impl_log": o["iid"][i],
                                             "model": str(iid[i])}, key={"site": "log_unknown_dosage_prior", "tau": s["tp"]})
                tot += math.exp(o["l1"][i]) if o["l1"][i] > -math.inf else 0.0
            if abs(tot - 1.0) > 1e-9:
                ck.violation("impl-sum", {"sum": tot, "Gp": s["Gp"], "tau": s["tp"]}, key={"site": "gamete_log_pmf-sum", "tau": s["tp"]})
    if gams:
        s = gams[len(gams) // 2]
        ck.sample({"kind": "gamete-walk", "instance": {k: s[k] for k in ("K", "Gp", "tp", "lp", "f")}, "model_row": s["row"]})

    # ---- code -> spec: recorded calls on random trios ----------------------
    ntr = 1500 if tier == "quick" else 10000
    rr = run_pool(ck, [{"op": "random_trace", "n": ntr, "seed": ck.seed}], "random_trace")[0]
    if not rr["ok"]:
        ck.violation("impl-error", {"error": rr["error"]}, key={"site": "random_trace"})
    else:
        ev = rr["result"]
        tf = os.path.join(ck.wd, "trace.json")
        with open(tf, "w") as fh:
            json.dump(ev, fh)
        try:
            t = tlc.run(SPEC, "TraceInheritance", "Trace.cfg", workers=1, extra_env={"TRACE_FILE": tf}, timeout=1500)
        except tlc.TLCError as e:
            ck.machinery_failure(str(e))
        ck.add_tlc(t, "TraceInheritance")
        consumed = [p for p in t.printed if "consumed" in p]
        if not consumed or consumed[0]["consumed"] != len(ev):
            ck.machinery_failure("trace not fully consumed: %s" % consumed)
        for p in t.printed:
            if "reject" in p:
                e = ev[p["reject"] - 1]
                ck.violation("trace-reject", {"line": p["reject"], "clause": p["clause"], "event": e},
                             key={"site": e["op"], "clause": p["clause"]})
        ck.traces += len(ev)
        ck.evaluations += len(ev)
        ck.nontrivial += sum(1 for e in ev if e["op"] in ("trio", "gamete") and 0 < e["v9"] < 10**9)
        ck.sample({"kind": "recorded-call", "event": ev[0]})
        ck.note("recorded_calls", len(ev))
        # binding demonstration: corrupted recorded fields must be rejected
        bad = []
        for e in ev:
            if e["op"] == "trio" and 1000 < e["v9"] < 10**9 - 1000 and len(bad) == 0:
                b = dict(e)
                b["v9"] = e["v9"] + 5
                bad.append(b)
            elif e["op"] == "trio_valid" and len(bad) == 1:
                b = dict(e)
                b["valid"] = not e["valid"]
                bad.append(b)
            elif e["op"] == "trio" and e["neginf"] and len(bad) == 2:
                b = dict(e)
                b["neginf"] = False
                b["v9"] = 0
                bad.append(b)
        tfb = os.path.join(ck.wd, "trace-corrupt.json")
        with open(tfb, "w") as fh:
            json.dump(bad, fh)
        t = tlc.run(SPEC, "TraceInheritance", "Trace.cfg", workers=1, extra_env={"TRACE_FILE": tfb})
        nrej = sum(1 for p in t.printed if "reject" in p)
        if nrej != len(bad) or not bad:
            ck.machinery_failure("corrupted trace lines rejected: %d of %d" % (nrej, len(bad)))
        ck.note("corrupted_traces_rejected", nrej)

    ck.exhaustive = True
    ck.assumptions = [
        "TLC and CommunityModules Json are correct",
        "exhaustive within the listed family shapes / parameter menus (see spec/Inheritance/MC_%s.cfg); "
        "larger ploidy / allele counts / parameter values are sampled (seeded) and validated by TraceInheritance" % tier,
        "positive-iff-valid is claimed for lambda < 1 and, for a trio with an unknown parent, strictly positive frequencies",
    ]
    summary = {}
    for v in ck.violations:
        k = "%s %s" % (v["kind"], json.dumps(v.get("key"), sort_keys=True))
        summary[k] = summary.get(k, 0) + 1
    if summary:
        ck.note("violation_summary", summary)
        for k, n in sorted(summary.items()):
            print("  %6d x %s" % (n, k), flush=True)
    ck.finish()


if __name__ == "__main__":
    main()
