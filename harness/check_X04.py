"""X04 (extra): counting, dosage and log-space arithmetic.

spec  : spec/CountingAndDosage/{CADDefs,CountingAndDosage,LogSpace,Gametes,TraceCountingAndDosage}.tla
 (a) mchap.combinatorics counts are the cardinalities of the sets TLC enumerates (haplotypes, multisets, ordered tuples,
     slot occurrences, orderings of one multiset); the dosage state machine (mutate / copy / swap / set a dosage) over
     every ordered genotype of small instances -> get_haplotype_dosage, ln_equivalent_permutations,
     count_genotype_permutations, set_haplotype_dosage, structural_change
 (b) log-space helpers on exact rational weights (0 = log -inf) -> add_log_prob, sum_log_probs, normalise_log_probs,
     natural_log_to_log10, greedy_choice, sample_snv_alleles (inverse CDF against fed uniforms, interpreted)
 (c) meiosis / fertilisation from first principles (equally likely index subsets) -> gamete_probabilities,
     cross_probabilities
 code -> spec: designed + seeded random calls and every call made by real `mchap assemble` / `call` / `call-exact` runs
     (interpreted; module attributes wrapped) validated by TraceCountingAndDosage.tla
"""
import json
import os
import sys
import time

sys.path.insert(0, os.path.dirname(os.path.abspath(__file__)))
from vlib import env, tlc, pool, repodata
from vlib.report import Check

SPEC = os.path.join(env.SPEC, "CountingAndDosage")

CNT_MUT = ["MutPermsOrderedDoses", "MutMultisetsNoRepetition", "MutOccurrencePermutations", "MutDosageLastRow"]
LOG_MUT = ["MutNormByMax", "MutChoiceUnnormalised", "MutSumSkipsFirst"]
GAM_MUT = ["MutGameteWithReplacement", "MutCrossDropsFatherWeight"]


def log(msg):
    print("[X04 %6.1fs] %s" % (time.time() - T0, msg), flush=True)


def chunks_of(xs, n):
    return [xs[i:i + n] for i in range(0, len(xs), n)]


def feature_of(b):
    """the distinguishing feature of a disagreement (for the violation key)"""
    f = {"site": b.get("fn", "?")}
    if "feature" in b:
        f["feature"] = b["feature"]
    if b.get("fn") == "set_haplotype_dosage":
        f["doses_ge_2"] = "two-or-more" if b.get("doses_ge_2", 0) >= 2 else "at-most-one"
    if b.get("fn") == "count_unique_genotypes":
        f["u"], f["p"] = b.get("u"), b.get("p")
    return f


def main():
    ck = Check("X04")
    tier = ck.tier
    ck.rule = (
        "TLC enumerates every ordered genotype / weight vector / parent pair of the listed small instances; every state "
        "and transition is replayed into the implementation (compiled and interpreted). Non-trivial = a genotype with a "
        "repeated haplotype that is not homozygous, a weight vector with a zero (log -inf) entry or length >= 3, a parent "
        "pair with a heterozygous parent."
    )
    grouped = {}

    def group(kind, key, detail):
        k = (kind, json.dumps(key, sort_keys=True))
        if k not in grouped:
            grouped[k] = {"kind": kind, "key": key, "first": detail, "count": 0}
        grouped[k]["count"] += 1

    # ---- 1. model checking + mutant specs ------------------------------------------------------
    try:
        runs = {}
        for mod, cfg in (("CountingAndDosage", "MC_%s.cfg" % tier), ("LogSpace", "MC_log_%s.cfg" % tier),
                         ("Gametes", "MC_gam_%s.cfg" % tier)):
            r = tlc.run(SPEC, mod, cfg)
            ck.add_tlc(r, mod)
            if r.violated:
                ck.violation("model", {"module": mod, "invariant": r.violated, "text": r.error_text[:1500]}, key={"model": mod})
            runs[mod] = r
            log("%s: %d distinct, %d generated, %d dumped" % (mod, r.distinct, r.generated, len(r.printed)))
        killed = 0
        for mod, pre, muts in (("CountingAndDosage", "cnt", CNT_MUT), ("LogSpace", "log", LOG_MUT), ("Gametes", "gam", GAM_MUT)):
            for m in muts:
                r = tlc.run(SPEC, mod, "Mutant_%s_%s.cfg" % (pre, m))
                if r.violated != m:
                    ck.machinery_failure("mutant spec %s not killed (violated=%s)" % (m, r.violated))
                killed += 1
        ck.note("mutant_specs_killed", killed)
        log("mutant specs killed: %d" % killed)
    except tlc.TLCError as e:
        ck.machinery_failure(str(e))

    # ---- 2. spec -> code (a): states and transitions of the dosage machine ----------------------
    pr = runs["CountingAndDosage"].printed
    st_seen, states = set(), []
    for s in pr:
        if s.get("kind") == "state":
            k = (tuple(s["ua"]), s["p"], tuple(s["g"]))
            if k not in st_seen:
                st_seen.add(k)
                states.append(s)
    # (u, p) alone does not identify the instance; steps carry u, p only -> attach every ua with that (u, p)
    inst_by_up = {}
    dose = {}
    for s in states:
        inst_by_up.setdefault((s["u"], s["p"]), set()).add(tuple(s["ua"]))
        dose[(s["u"], s["p"], tuple(s["g"]))] = s["d"]
    sp_seen, steps = set(), []
    for s in pr:
        if s.get("kind") == "step":
            k = (s["u"], s["p"], tuple(s["prev"]), s["op"], tuple(s["tgt"]))
            if k in sp_seen:
                continue
            sp_seen.add(k)
            for ua in sorted(inst_by_up[(s["u"], s["p"])]):
                steps.append(dict(s, ua=list(ua), dose=dose[(s["u"], s["p"], tuple(s["g"]))]))
    log("dosage machine: %d states, %d transitions" % (len(states), len(steps)))
    for mode in ("jit", "py"):
        tasks = [{"op": "count_states", "states": c} for c in chunks_of(states, 300)]
        tasks += [{"op": "count_steps", "steps": c, "mode": mode} for c in chunks_of(steps, 1500)]
        res = pool.map_tasks("impl.x04", tasks, mode=mode)
        for t, rr in zip(tasks, res):
            if not rr["ok"]:
                group("impl-error", {"site": t["op"], "mode": mode}, {"error": rr["error"], "tb": rr.get("tb", "")[-600:]})
                continue
            ck.evaluations += rr["result"]["n"]
            for b in rr["result"]["bad"]:
                group("counting-dosage", feature_of(b), dict(b, mode=mode))
        if mode == "jit":
            ck.nontrivial += sum(1 for s in states if any(x >= 2 for x in s["d"]) and s["d"][0] != s["p"])
    ck.traces += len(inst_by_up)
    ck.sample({"kind": "dosage-machine state", "state": states[len(states) // 2]})
    ck.sample({"kind": "dosage-machine transition", "step": steps[len(steps) // 3]})
    log("dosage machine replayed")

    # ---- 3. spec -> code (b): log space ---------------------------------------------------------
    lst = runs["LogSpace"].printed
    for mode in ("jit", "py"):
        tasks = [{"op": "log_states", "states": c, "mode": mode, "seed": ck.seed} for c in chunks_of(lst, 250)]
        res = pool.map_tasks("impl.x04", tasks, mode=mode)
        info = {}
        for t, rr in zip(tasks, res):
            if not rr["ok"]:
                group("impl-error", {"site": "log_states", "mode": mode}, {"error": rr["error"], "tb": rr.get("tb", "")[-600:]})
                continue
            ck.evaluations += rr["result"]["n"]
            for b in rr["result"]["bad"]:
                group("log-space", feature_of(b), dict(b, mode=mode))
            for k, v in rr["result"]["info"].items():
                info[k] = info.get(k, 0) + v
        ck.note("log_all_minus_inf_%s" % mode, info)
        if mode == "jit":
            ck.nontrivial += sum(1 for s in lst if len(s["w"]) >= 3 or any(w[0] == 0 for w in s["w"]))
    ck.sample({"kind": "LogSpace state", "state": lst[len(lst) * 3 // 5]})
    log("log space replayed (%d states x 2 modes)" % len(lst))

    # ---- 4. spec -> code (c): gametes and crosses -----------------------------------------------
    gst = runs["Gametes"].printed
    tasks = [{"op": "gam_states", "states": c} for c in chunks_of(gst, 100)]
    res = pool.map_tasks("impl.x04", tasks, mode="jit")
    for t, rr in zip(tasks, res):
        if not rr["ok"]:
            group("impl-error", {"site": "gam_states"}, {"error": rr["error"], "tb": rr.get("tb", "")[-600:]})
            continue
        ck.evaluations += rr["result"]["n"]
        for b in rr["result"]["bad"]:
            group("gametes", feature_of(b), b)
    ck.nontrivial += sum(1 for s in gst if len(set(s["mom"][0][0])) > 1 or len(set(s["dad"][0][0])) > 1)
    ck.sample({"kind": "Gametes parents state", "state": gst[len(gst) // 2]})
    log("gametes replayed (%d parent states)" % len(gst))

    # ---- 5. code -> spec: recorded calls ---------------------------------------------------------
    data = repodata.copy_test_data(ck.wd, repodata.ASSEMBLE_FILES + repodata.CALL_FILES)
    bams = [os.path.join(data, "simple.sample%d.bam" % i) for i in (1, 2, 3)]
    steps_ = "40" if tier == "quick" else "120"
    mc = ["--mcmc-steps", steps_, "--mcmc-burn", "10", "--mcmc-seed", str(ck.seed + 11)]
    asm = ["--targets", os.path.join(data, "simple.bed.gz"), "--variants", os.path.join(data, "simple.vcf.gz"),
           "--reference", os.path.join(data, "simple.fasta")]
    hv = os.path.join(data, "simple.output.mixed_depth.assemble.vcf")
    progs = [
        {"op": "program", "prog": "assemble", "argv": ["--bam"] + bams + ["--ploidy", "4"] + asm + mc + ["--report", "GL", "GP"]},
        {"op": "program", "prog": "call", "argv": ["--bam"] + bams + ["--ploidy", "4", "--haplotypes", hv] + mc + ["--report", "GL", "GP"]},
        {"op": "program", "prog": "call-exact", "argv": ["--bam"] + bams + ["--ploidy", "4", "--haplotypes", hv, "--report", "GL", "GP"]},
    ]
    if tier == "thorough":
        progs.append({"op": "program", "prog": "assemble", "cap": 600,
                      "argv": ["--bam"] + bams + ["--ploidy", "2"] + asm + mc + ["--mcmc-temperatures", "0.5", "1.0"]})
        progs.append({"op": "program", "prog": "call-exact", "argv": ["--bam"] + bams + ["--ploidy", "2", "--haplotypes", hv,
                                                                                      "--prior-frequencies", "AFP"] if False else
                      ["--bam"] + bams + ["--ploidy", "2", "--haplotypes", hv, "--report", "GL"]})
    nd = 150 if tier == "quick" else 1200
    tasks = [{"op": "designed", "n": nd, "seed": ck.seed, "mode": "py"}] + progs
    res = pool.map_tasks("impl.x04", tasks, mode="py", warm_first=False)
    tj = pool.map_tasks("impl.x04", [{"op": "designed", "n": nd, "seed": ck.seed + 1, "mode": "jit"}], mode="jit")
    events, src = [], []
    for t, rr in zip(tasks + [{"op": "designed-jit"}], res + tj):
        name = t.get("prog", t["op"])
        if not rr["ok"]:
            group("impl-error", {"site": "recorded calls", "source": name}, {"error": rr["error"], "tb": rr.get("tb", "")[-800:]})
            continue
        if t["op"] == "program":
            out = rr["result"]
            ck.note("program_%s" % name.replace("-", "_") + ("_%d" % tasks.index(t)),
                    {"calls": out["counts"], "not_recorded": out["skipped"], "loci": out["loci"], "patched_bindings": out["patched"]})
            ev = out["events"]
            if out["loci"] == 0 or not ev:
                ck.machinery_failure("program run %s recorded nothing" % name)
        else:
            ev = rr["result"]
        events += ev
        src += [name] * len(ev)
    log("recorded %d events" % len(events))
    byop = {}
    for e, s in zip(events, src):
        byop[(s, e["op"])] = byop.get((s, e["op"]), 0) + 1
    ck.note("recorded_events", {"%s/%s" % k: v for k, v in sorted(byop.items())})
    rej = validate(ck, events, "trace")
    for ln, clause in rej:
        e = events[ln - 1]
        key = {"site": e["op"], "clause": clause, "source": src[ln - 1].replace("designed-jit", "designed")}
        if "regime" in e:
            key["regime"] = e["regime"]
        group("trace-reject", key, {"line": ln, "event": e})
    ck.traces += len(events)
    ck.evaluations += len(events)
    ck.nontrivial += sum(1 for e, s in zip(events, src) if s not in ("designed", "designed-jit"))
    for want in ("dosage", "perms", "norm", "log10", "ugen", "snvp"):
        got = [e for e, s in zip(events, src) if e["op"] == want and s not in ("designed", "designed-jit")]
        if got:
            ck.sample({"kind": "recorded program call", "event": got[len(got) // 2]}, cap=14)

    # binding demonstration: corrupted recorded lines must each be rejected
    corrupt = []
    done = set()
    for e in events:
        o = e["op"]
        if o in done:
            continue
        c = json.loads(json.dumps(e))
        if o == "dosage" and len(set(c["g"])) < len(c["g"]):
            c["d"] = c["d"][::-1] if c["d"][::-1] != c["d"] else [x + 1 for x in c["d"]]
        elif o == "perms" and c["n"] > 0:
            c["n"] += 1
        elif o in ("ugen", "utup", "uhap", "occ"):
            c["limbs"] = [(c["limbs"] or [0])[0] + 1] + c["limbs"][1:]
        elif o == "sum":
            c["e4"] += 7
        elif o == "sumrel":
            c["z"] = -5
        elif o == "add":
            c["b"] = 800000
        elif o == "norm" and len(c["bp"]) >= 2:
            c["bp"][0] = min(10000, c["bp"][0] + 50)
            if c["bp"][0] == 10000:
                continue
        elif o == "normx" and len(c["bp"]) >= 2:
            c["bp"] = c["bp"][1:] + c["bp"][:1]
            if c["bp"] == e["bp"]:
                continue
        elif o == "log10" and abs(c["x"]) > 1000:
            c["y"] = c["x"]
        elif o == "greedy" and min(c["bp"]) < max(c["bp"]):
            c["i"] = c["bp"].index(min(c["bp"]))
        elif o == "snv":
            c["a"][0] = c["a"][0] + 1
        elif o == "snvp" and any(0 in r for r in c["bp"]):
            r = [i for i, row in enumerate(c["bp"]) if 0 in row][0]
            c["a"][r] = c["bp"][r].index(0)
        elif o in ("gam", "cross") and len(c["out"]) >= 2:
            c["out"][0]["bp"] += 40
            c["out"][1]["bp"] -= 40
        else:
            continue
        done.add(o)
        corrupt.append(c)
    rejc = validate(ck, corrupt, "trace-corrupt", count=False)
    if len(rejc) != len(corrupt):
        okl = {ln for ln, _ in rejc}
        ck.machinery_failure("corrupted trace lines accepted: %s" % [corrupt[i]["op"] for i in range(len(corrupt)) if i + 1 not in okl])
    ck.note("corrupted_traces_rejected", len(rejc))
    ck.note("corrupted_event_kinds", sorted(done))
    log("corrupted lines rejected: %d" % len(rejc))

    # ---- verdicts -------------------------------------------------------------------------------
    for (kind, _), gr in sorted(grouped.items()):
        ck.violation(kind, dict(gr["first"], occurrences=gr["count"]), key=gr["key"])
    ck.exhaustive = True
    ck.assumptions = [
        "TLC and CommunityModules Json are correct",
        "exhaustive within the listed small instances; larger arguments and the real program runs are sampled (seeded)",
        "set_haplotype_dosage with two or more target doses >= 2 is only executed interpreted (a time limit must be enforceable)",
        "all -inf input: sum_log_probs = -inf is demanded (log of a zero sum); normalise_log_probs of an all -inf vector is "
        "undocumented (observed: nan) and only counted",
        "count_haplotype_universial_occurance is modelled after its summary line (occurrences among all UNIQUE genotypes)",
    ]
    ck.finish()


def validate(ck, events, name, count=True):
    """TraceCountingAndDosage.tla over batches; returns [(line, clause)]"""
    rej = []
    B = 4000
    for bi, off in enumerate(range(0, len(events), B)):
        batch = events[off:off + B]
        tf = os.path.join(ck.wd, "%s-%d.json" % (name, bi))
        with open(tf, "w") as fh:
            json.dump(batch, fh)
        try:
            t = tlc.run(SPEC, "TraceCountingAndDosage", "Trace.cfg", workers=1, extra_env={"TRACE_FILE": tf})
        except tlc.TLCError as e:
            ck.machinery_failure(str(e))
        if count:
            ck.add_tlc(t, "TraceCountingAndDosage")
        consumed = [p for p in t.printed if "consumed" in p]
        if not consumed or consumed[0]["consumed"] != len(batch):
            ck.machinery_failure("trace %s not fully consumed: %s %s" % (tf, consumed, t.error_text[:600]))
        for p in t.printed:
            if "reject" in p:
                rej.append((off + p["reject"], p["clause"]))
    return rej


if __name__ == "__main__":
    T0 = time.time()
    main()
