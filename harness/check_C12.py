"""C12: haplotype encode/decode round trip; assemble output is valid call input.

spec  : spec/HapCodec/{HapCodecOps,HapCodec,TraceHapCodec}.tla
bind  : spec -> code : every final state TLC reaches (REF + <= 3 distinct ALTs) is rendered to VCF text and passed
                       through LocusPrior.from_variant_record -> encode_haplotypes -> Locus.format_haplotypes
                       (sequence-derived SNVs and the SNVPOS path); positions, alleles, matrix and decoded
                       strings must equal the model; a seeded subset of the states is also fed to the real
                       `call-exact` / `call` programs;
        code -> spec : assemble outputs (repo goldens + fresh runs over thresholds / ploidies / BAM sets / pools,
                       incl. REFMASKED, ALT-less and SNV-less records) are fed to `call` and `call-exact`;
                       every (input record, output record) pair is validated by TraceHapCodec.tla.
regimes added after the fourth seeded round:
  * INFO/SNVPOS absent, '.', incomplete or stale relative to REF/ALT (merged / edited catalogues): HapCodec.tla carries
    the annotation as the state variable `hint` (Annotate step, Hints <- AnyHint in MC_hint*.cfg); the sequence path never
    consults it (FoundCols; Mutant_hinted.cfg), the trusted path is judged when the hint covers the record
    (CoveringHintRoundTrips).  All those states are replayed, a sample goes through call / call-exact as catalogues, the
    random larger records carry random annotations (TraceHapCodec!CodecVerdict, clause CoveringSnvposRoundTrips).
  * targets sharing a start position (nested targets): CallStream.tla enumerates the target lists; each becomes a BED ->
    real assemble -> real call / call-exact; TraceHapCodec!RunVerdict (clause EveryRecordOnce) + the per-record pairs.
    Catalogues with adjacent same-POS records of different length go the same way.
"""
import copy
import json
import os
import random
import sys

sys.path.insert(0, os.path.dirname(os.path.abspath(__file__)))
from vlib import env, tlc, pool, vcfgen, vcftext
from vlib.report import Check

SPEC = os.path.join(env.SPEC, "HapCodec")
SITE = "LocusPrior.encode/format"
BAMS = ["@simple.sample1.bam", "@simple.sample2.bam", "@simple.sample3.bam"]
DEEP = ["@simple.sample1.deep.bam", "@simple.sample2.deep.bam", "@simple.sample3.deep.bam"]
MIXED = ["@simple.sample1.bam", "@simple.sample2.deep.bam", "@simple.sample3.bam"]


def header():
    return vcfgen.header([("CHR1", 60), ("CHR2", 60), ("CHR3", 60)], info=["SNVPOS", "REFMASKED"])


def hint_info(hint, L):
    """INFO items for a model annotation: absent -> no SNVPOS key, dot -> SNVPOS=. , list -> the columns"""
    if hint is None:
        return [("SNVPOS", list(range(1, L + 1)))]
    if hint["kind"] == "absent":
        return []
    if hint["kind"] == "dot":
        return [("SNVPOS", None)]
    return [("SNVPOS", list(hint["cols"]))]


def line(s, pos, rid, snvpos=None, use_hint=True):
    L = len(s["ref"])
    if snvpos is not None:
        info = [("SNVPOS", snvpos)]
    else:
        info = hint_info(s.get("hint") if use_hint else None, L)
    return vcfgen.record("CHR1", pos, "".join(s["ref"]), ["".join(a) for a in s["alts"]], info=info, id=rid, filt=".")


def hint_key(s):
    h = s.get("hint")
    return None if h is None else (h["kind"], tuple(h["cols"]))


def covers(s):
    """the model's Covers(hint, rec) (HapCodecOps): every polymorphic column is named by the annotation"""
    h = s.get("hint")
    if h is None:
        return True
    return h["kind"] != "absent" and set(s["cols"]) <= set(h["cols"])


def compare_state(ck, s, o, pos):
    """model state vs the implementation's two paths"""
    n = 0
    rows = ["".join(s["ref"])] + ["".join(a) for a in s["alts"]]
    L = len(s["ref"])
    inst = {"REF": rows[0], "ALT": rows[1:]}
    a = o["seq"]
    if "error" in a:
        ck.violation("aborted", dict(inst, error=a["error"]), key={"site": SITE, "path": "sequences", "error": a["etype"]})
    else:
        want = {"cols": s["cols"], "alleles": s["alleles"], "matrix": s["matrix"], "decoded": rows,
                "ref": rows[0], "alts": rows[1:], "start": pos - 1, "stop": pos - 1 + L}
        for k, v in want.items():
            if a.get(k) != v:
                ck.violation("codec", dict(inst, field=k, impl=a.get(k), model=v), key={"site": SITE, "path": "sequences", "field": k})
                n += 1
    b = o["snvpos"]
    h = s.get("hint")
    hcols = list(range(1, L + 1)) if h is None else list(h["cols"])
    if not covers(s):
        # the trusted path with an annotation that misses a polymorphic column (or with none at all) is outside the
        # stated clause (HapCodec!NonCoveringHintLosesSequence: it cannot round-trip); only the sequence path is judged
        pass
    elif "error" in b:
        ck.violation("aborted", dict(inst, error=b["error"], use_snvpos=True), key={"site": SITE, "path": "snvpos", "error": b["etype"]})
    else:
        # covering SNVPOS (HapCodec!CoveringHintRoundTrips): monomorphic columns have one allele and encode to 0, the
        # polymorphic ones carry the sequence path's matrix; the round trip must still hold
        if b.get("decoded") != rows:
            ck.violation("codec", dict(inst, field="decoded", use_snvpos=True, impl=b.get("decoded"), model=rows),
                         key={"site": SITE, "path": "snvpos", "field": "decoded"})
        if b.get("cols") != hcols:
            ck.violation("codec", dict(inst, field="cols", use_snvpos=True, impl=b.get("cols")), key={"site": SITE, "path": "snvpos", "field": "cols"})
        sub = [[row[hcols.index(c)] for c in s["cols"]] for row in b.get("matrix", [])] if b.get("cols") == hcols else None
        rest = [[row[j] for j, c in enumerate(hcols) if c not in s["cols"]] for row in b.get("matrix", [])] if b.get("cols") == hcols else []
        if sub != s["matrix"] or any(x != 0 for row in rest for x in row):
            ck.violation("codec", dict(inst, field="matrix", use_snvpos=True, impl=b.get("matrix"), model=s["matrix"]),
                         key={"site": SITE, "path": "snvpos", "field": "matrix"})
    return n


def abstract_src(r, assembled=True):
    sp = r.info.get("SNVPOS")
    return {"assembled": assembled, "chrom": r.chrom, "pos": r.pos, "ref": list(r.ref), "alts": [list(a) for a in r.alts],
            "has_snvpos": sp is not None, "snvpos": [] if sp in (None, ".", True) else [int(x) for x in sp.split(",")],
            "filters": list(r.filters)}


def abstract_out(r):
    sp = r.info.get("SNVPOS")
    gts = []
    for smp in r.samples:
        al, _ = vcftext.gt(smp.get("GT", "."))
        gts.append([-1 if a is None else a for a in al])
    return {"chrom": r.chrom, "pos": r.pos, "ref": list(r.ref), "alts": [list(a) for a in r.alts],
            "snvpos": [] if sp in (None, ".", True) else [int(x) for x in sp.split(",")],
            "filters": list(r.filters), "gts": gts}


def run_key(r):
    return "%s:%d:%s:%s" % (r.chrom, r.pos, r.ref, ",".join(r.alts))


def match_records(ins, outs):
    """input record -> the output record printed for it (or None).  Records are identified by (CHROM, POS, ID); several
    records may share that (nested targets of an unnamed BED, catalogues without IDs): equally many -> paired in file
    order, otherwise paired by identical REF/ALT and the rest is missing."""
    gi, go = {}, {}
    for i, r in enumerate(ins):
        gi.setdefault((r.chrom, r.pos, r.id), []).append(i)
    for r in outs:
        go.setdefault((r.chrom, r.pos, r.id), []).append(r)
    res = [None] * len(ins)
    for k, idx in gi.items():
        cand = list(go.get(k, []))
        if len(cand) == len(idx):
            for i, r in zip(idx, cand):
                res[i] = r
            continue
        for i in idx:
            for r in cand:
                if r.ref == ins[i].ref and tuple(r.alts) == tuple(ins[i].alts):
                    res[i] = r
                    cand.remove(r)
                    break
    return res


def is_assembled(label):
    return not (label.startswith("model") or label.startswith("catalogue"))


EMPTY_OUT = {"chrom": "", "pos": 0, "ref": [], "alts": [], "snvpos": [], "filters": [], "gts": []}


class Phases:
    """wall time per phase of the check, written into the evidence (coverage.phase_s)"""

    def __init__(self, ck):
        import time

        self.ck, self.t, self.cur, self.d, self.time = ck, time.time(), "tlc+replay", {}, time

    def mark(self, name):
        now = self.time.time()
        self.d[self.cur] = round(self.d.get(self.cur, 0) + now - self.t, 1)
        self.t, self.cur = now, name
        self.ck.note("phase_s", dict(self.d))


def main():
    ck = Check("C12")
    ph = Phases(ck)
    tier = ck.tier
    rnd = random.Random(ck.seed)
    ck.rule = (
        "TLC builds every record REF + <= MaxAlt pairwise distinct ALTs of the bounded alphabets/lengths and runs the codec "
        "steps; every final state is replayed into from_variant_record/encode_haplotypes/format_haplotypes. Non-trivial = record "
        "with >= 1 SNV column whose allele numbering is not the identity on rows (a repeated base or >= 3 alleles in a column). "
        "Pipeline: every record of every assemble output, paired with the call / call-exact record for it. "
        "SNVPOS annotations: MC_hint*.cfg let a record arrive with no SNVPOS, SNVPOS=. or any column list (incomplete / stale included); "
        "the sequence path must give the model's answer for every annotation, the trusted path when the annotation covers the polymorphic columns; "
        "a sample of the non-covering states is fed to call / call-exact as haplotype catalogues. "
        "Record stream: every target list of CallStream (nested targets sharing a start included) -> BED -> assemble -> call / call-exact, "
        "each run validated as a whole (EveryRecordOnce) and record by record."
    )
    cfgs = ["MC_quick.cfg", "MC_quick_b.cfg", "MC_quick_c.cfg", "MC_hint.cfg", "MC_symbols.cfg"] if tier == "quick" else \
        ["MC_quick_c.cfg", "MC_thorough.cfg", "MC_thorough_b.cfg", "MC_thorough_c.cfg", "MC_hint.cfg", "MC_hint_b.cfg", "MC_hint_thorough.cfg", "MC_symbols.cfg"]
    hinted = []     # states whose SNVPOS annotation is absent / '.' / incomplete / stale, for the catalogue runs
    n_hint = {"absent": 0, "dot": 0, "covering": 0, "non-covering": 0}
    wdir = os.path.join(ck.wd, "tmp")
    os.makedirs(wdir, exist_ok=True)
    seen = set()
    subset = []
    n_states = 0
    # the small TLC runs (mutant configurations, target lists) go on in the background while the codec states are replayed
    from concurrent.futures import ThreadPoolExecutor

    MUTANTS = (("Mutant_unique.cfg", "RefRowZero"), ("Mutant_reffirst.cfg", "FirstAppearanceNumbering"),
               ("Mutant_template.cfg", "RoundTrip"), ("Mutant_hinted.cfg", "SnvColsArePolymorphic"),
               ("Mutant_stream.cfg", "EveryRecordOnce"))
    side = ThreadPoolExecutor(max_workers=3)
    fut_stream = side.submit(tlc.run, SPEC, "CallStream", "Stream_quick.cfg" if tier == "quick" else "Stream_thorough.cfg",
                             workers=2, keep_stdout=False)
    fut_mut = [side.submit(tlc.run, SPEC, "CallStream" if "stream" in cfg else "HapCodec", cfg, workers=2) for cfg, _ in MUTANTS]
    ahead = ThreadPoolExecutor(max_workers=1)      # TLC on the next configuration while this one is replayed
    run_cfg = lambda c: tlc.run(SPEC, "HapCodec", c, timeout=1700, keep_stdout=False)
    nxt = ahead.submit(run_cfg, cfgs[0])
    try:
        for ci, cfg in enumerate(cfgs):
            r = nxt.result()
            if ci + 1 < len(cfgs):
                nxt = ahead.submit(run_cfg, cfgs[ci + 1])
            ck.add_tlc(r, "HapCodec/" + cfg)
            if r.violated:
                ck.violation("model", {"cfg": cfg, "invariant": r.violated, "text": r.error_text[:1500]}, key={"model": "HapCodec", "cfg": cfg})
            states = []
            for s in r.printed:
                full = s["hint"]["kind"] == "list" and s["hint"]["cols"] == list(range(1, len(s["ref"]) + 1))
                if "hint" not in cfg and full:
                    s["hint"] = None      # the FullHint configurations: SNVPOS = every column, as before
                k = ("".join(s["ref"]), tuple("".join(a) for a in s["alts"]), hint_key(s))
                if k not in seen:
                    seen.add(k)
                    states.append(s)
            del r
            # ---- spec -> code: every state ----
            CH = 1000
            chunks = [states[i:i + CH] for i in range(0, len(states), CH)]
            tasks = []
            for c in chunks:
                text = header() + "".join(line(s, 6 + (j % 7), "S%d" % j) for j, s in enumerate(c))
                tasks.append({"op": "codec", "dir": wdir, "text": text})
            res = pool.map_tasks("impl.c12", tasks, mode="jit", warm_first=False)
            for c, rr in zip(chunks, res):
                if not rr["ok"]:
                    ck.machinery_failure("codec worker: %s" % rr["error"])
                if len(rr["result"]) != len(c):
                    ck.machinery_failure("codec worker returned %d of %d records" % (len(rr["result"]), len(c)))
                for j, (s, o) in enumerate(zip(c, rr["result"])):
                    ck.evaluations += 1
                    compare_state(ck, s, o, 6 + (j % 7))
                    nrows = len(s["matrix"])
                    if any([row[jj] for row in s["matrix"]] != list(range(nrows)) for jj in range(len(s["cols"]))) and len(s["cols"]) and nrows > 1:
                        ck.nontrivial += 1
            n_states += len(states)
            if states:
                ck.sample({"kind": "model-state", "state": states[len(states) // 2]})
                want = 150 if tier == "quick" else 1200
                # program level: the aligner's reference is poly-A, and the read extractor insists that REF matches it
                allA = [s for s in states if all(b == "A" for b in s["ref"])]
                if "hint" in cfg:
                    for s in states:
                        h = s["hint"]
                        n_hint[h["kind"] if h["kind"] != "list" else "covering" if covers(s) else "non-covering"] += 1
                    stale = [s for s in allA if (s["alts"] and s["hint"]["kind"] != "list") or not covers(s)]
                    hinted.extend(rnd.sample(stale, min(want // 3, len(stale))))
                else:
                    subset.extend(rnd.sample(allA, min(want // len([c for c in cfgs if "hint" not in c]) + 1, len(allA))))
            del states
        # the record stream: target lists (nested targets included) for assemble -> call / call-exact
        r = fut_stream.result()
        ck.add_tlc(r, "CallStream")
        if r.violated:
            ck.violation("model", {"cfg": "CallStream", "invariant": r.violated, "text": r.error_text[:1500]}, key={"model": "CallStream"})
        streams = sorted((p for p in r.printed if "targets" in p), key=lambda p: json.dumps(p["targets"]))
        if tier != "quick":
            nested = [p for p in streams if p["nested"]]
            streams = rnd.sample(nested, min(60, len(nested))) + [p for p in streams if not p["nested"]][:6]
        killed = 0
        for (cfg, inv), fm in zip(MUTANTS, fut_mut):
            m = fm.result()
            if m.violated != inv:
                ck.machinery_failure("mutant spec %s not killed (%s)" % (cfg, m.violated))
            killed += 1
        ck.note("mutant_specs_killed", killed)
    except tlc.TLCError as e:
        ck.machinery_failure(str(e))
    ck.traces += n_states
    ck.note("model_states_replayed", n_states)
    ck.note("snvpos_annotation_states", n_hint)
    ck.note("target_lists", {"all": len(streams), "nested": sum(p["nested"] for p in streams)})

    ph.mark("assemble")
    # ---- pipeline inputs ------------------------------------------------------
    inputs = []   # (label, text, call_extra_args)
    # (a) a seeded subset of the model states as haplotype VCFs (REF/ALT of any shape are valid call input)
    for a in range(0, len(subset), 50):
        sub = subset[a:a + 50]
        text = header() + "".join(line(s, 6 + j % 10, "M%d" % (a + j), snvpos=s["cols"] or None) for j, s in enumerate(sub))
        inputs.append(("model-states-%d" % a, text, ["--bam"] + BAMS + ["--ploidy", "4"]))
    # (a2) catalogues: model states whose SNVPOS is absent / '.' / incomplete / stale (merged or edited haplotype files)
    for a in range(0, len(hinted), 50):
        sub = hinted[a:a + 50]
        text = header() + "".join(line(s, 6 + j % 10, "H%d" % (a + j)) for j, s in enumerate(sub))
        inputs.append(("catalogue-snvpos-%d" % a, text, ["--bam"] + BAMS + ["--ploidy", "4"]))
    # (a3) a catalogue whose adjacent records share CHROM and POS and differ in length (what assemble prints for nested
    # targets), with and without IDs; annotations of every kind
    byL = {}
    for s_ in subset + hinted:
        byL.setdefault(len(s_["ref"]), []).append(s_)
    if len(byL) >= 2:
        lens = sorted(byL)
        for named in (True, False):
            lines = []
            for g in range(12 if tier == "quick" else 40):
                nest = [rnd.choice(byL[L_]) for L_ in rnd.sample(lens, rnd.randint(2, min(3, len(lens))))]
                lines += [line(s_, 6 + g, ("N%d_%d" % (g, i)) if named else ".") for i, s_ in enumerate(nest)]
            inputs.append(("catalogue-nested-%s" % ("ids" if named else "noids"), header() + "".join(lines), ["--bam"] + BAMS + ["--ploidy", "4"]))
    # (b) the repo's golden assemble outputs
    data = os.path.join(env.REPO, "mchap", "tests", "test_io", "data")
    for fn in sorted(os.listdir(data)):
        if fn.endswith(".vcf") and "assemble" in fn and "atomize" not in fn:
            with open(os.path.join(data, fn)) as fh:
                text = fh.read()
            if "pool" in fn:
                if "deep" in fn:
                    args = ["--bam"] + DEEP + ["--ploidy", "@simple.pools-ploidy", "--sample-pool", "@simple.pools"]
                else:
                    continue  # pooled with a command line the data directory does not document
            else:
                args = ["--bam"] + (DEEP if "deep" in fn else MIXED if "mixed" in fn else BAMS) + ["--ploidy", "4"]
            inputs.append(("golden:" + fn, text, args))
            # the same file as assemble would print it had no sample carried the reference haplotype (REFMASKED on
            # records that have ALTs; the repo's BAMs always contain the reference, so real runs only give REFMASKED + NOA)
            if tier == "thorough" or fn == "simple.output.assemble.vcf":
                v = vcftext.parse(text)
                lines = []
                for r in v.records:
                    cols = r.line.split("\t")
                    if r.alts and "REFMASKED" not in r.info:
                        cols[7] = "REFMASKED;" + cols[7]
                    lines.append("\t".join(cols))
                synth = "\n".join(v.meta + ["#" + "\t".join(v.columns)] + lines) + "\n"
                inputs.append(("synthetic-refmasked:" + fn, synth, args))
                # ... and as assemble prints a target whose SNVs no read covers: no haplotype reaches the threshold, the
                # reference is masked and nothing is listed (REFMASKED, ALT '.', FILTER NOA): no usable allele at all
                lines = []
                for r in v.records:
                    cols = r.line.split("\t")
                    cols[4] = "."
                    cols[6] = "NOA"
                    if "REFMASKED" not in r.info:
                        cols[7] = "REFMASKED;" + cols[7]
                    lines.append("\t".join(cols))
                synth = "\n".join(v.meta + ["#" + "\t".join(v.columns)] + lines) + "\n"
                inputs.append(("synthetic-noa:" + fn, synth, args))
    # (c) fresh assemble runs
    base = ["--targets", "@simple.bed.gz", "--variants", "@simple.vcf.gz", "--reference", "@simple.fasta",
            "--mcmc-steps", "300", "--mcmc-burn", "100"]
    grid = []
    thr = [0.2, 1.0, 0.9] if tier == "quick" else [0.05, 0.2, 0.5, 0.8, 0.9, 0.95, 0.99, 1.0]
    for t in thr:
        for ploidy in ([4] if tier == "quick" else [2, 4, 6]):
            for bi, bams in enumerate([BAMS] if tier == "quick" else [BAMS, DEEP, MIXED, BAMS[:1], DEEP[1:]]):
                grid.append((bams, ploidy, ["--haplotype-posterior-threshold", str(t), "--mcmc-seed", str(ck.seed + 7 * len(grid) + 1)]))
    if tier == "thorough":
        grid.append((DEEP, None, ["--ploidy", "@simple.pools-ploidy", "--sample-pool", "@simple.pools", "--mcmc-seed", str(ck.seed + 3)]))
        grid.append((BAMS, 4, ["--inbreeding", "0.5", "--mcmc-seed", str(ck.seed + 4), "--report", "AFP", "ACP"]))
        grid.append((BAMS, 4, ["--base-error-rate", "0.125", "--mcmc-seed", str(ck.seed + 5)]))
    aruns = []
    for bams, ploidy, extra in grid:
        argv = ["--bam"] + bams + (["--ploidy", str(ploidy)] if ploidy else []) + base + extra
        aruns.append((bams, ploidy, extra, argv))
    # (d) the CallStream target lists: one BED each (named targets for even lists, a 3-column BED for odd ones)
    for i, p_ in enumerate(streams):
        bed = os.path.join(wdir, "targets-%d.bed" % i)
        with open(bed, "w") as fh:
            for a_, b_ in p_["targets"]:
                fh.write("CHR1\t%d\t%d%s\n" % (a_, b_, "\tT_%02d_%02d" % (a_, b_) if i % 2 == 0 else ""))
        bams = [BAMS, MIXED, DEEP][i % 3]
        extra = ["--targets", bed, "--mcmc-seed", str(ck.seed + 13 * i + 2)]
        argv = ["--bam"] + bams + ["--ploidy", "4"] + base[2:] + extra
        aruns.append((bams, 4, ["stream"] + ["%d-%d" % tuple(t) for t in p_["targets"]], argv))
    res = pool.map_tasks("impl.c12", [{"op": "program", "name": "assemble", "argv": a[3]} for a in aruns], mode="jit")
    n_asm_fail = 0
    for (bams, ploidy, extra, argv), rr in zip(aruns, res):
        if not rr["ok"] or "error" in rr["result"]:
            n_asm_fail += 1     # assemble failures belong to other properties; recorded, not judged here
            ck.note("assemble_run_failed_example", str(rr)[:300])
            continue
        cargs = ["--bam"] + bams + (["--ploidy", str(ploidy)] if ploidy else [a for a in extra if a.startswith("@") or a in ("--ploidy", "--sample-pool")])
        if extra[0] == "stream":
            n_rec = len(vcftext.parse(rr["result"]["out"]).records)
            ck.evaluations += 1
            if n_rec != len(extra) - 1:    # not a C12 clause (assemble's own output); recorded, the pipeline is judged on what it wrote
                ck.note("assemble_records_vs_targets_example", {"targets": extra[1:], "records": n_rec})
        inputs.append(("run:assemble#%d %s" % (len(inputs), " ".join(extra[:4])), rr["result"]["out"], cargs))
    # the real command line once: `mchap assemble ...` in a fresh interpreter; its stdout joins the pipeline inputs
    cr = pool.map_tasks("impl.c12", [{"op": "cli", "argv": ["assemble", "--bam"] + BAMS + ["--ploidy", "4"] + base +
                                      ["--mcmc-seed", str(ck.seed + 11), "--haplotype-posterior-threshold", "0.9"]}], mode="jit", warm_first=False)[0]
    cli_input = None
    if cr["ok"] and cr["result"]["rc"] == 0:
        cli_input = len(inputs)
        inputs.append(("cli:assemble", cr["result"]["out"], ["--bam"] + BAMS + ["--ploidy", "4"]))
    else:
        ck.note("cli_assemble_failed", str(cr)[:300])
    ck.note("assemble_runs", len(aruns))
    ck.note("assemble_runs_failed", n_asm_fail)

    ph.mark("call")
    # ---- call / call-exact on every input -------------------------------------
    pruns = []
    for k, (label, text, cargs) in enumerate(inputs):
        p = os.path.join(wdir, "in-%d.vcf" % k)
        with open(p, "w") as fh:
            fh.write(text)
        for prog in ("call-exact", "call"):
            argv = list(cargs) + ["--haplotypes", p]
            if prog == "call":
                argv += ["--mcmc-steps", "150", "--mcmc-burn", "50", "--mcmc-seed", str(ck.seed + 1)]
            pruns.append((k, prog, argv))
    res = pool.map_tasks("impl.c12", [{"op": "program", "name": p, "argv": a} for _, p, a in pruns], mode="jit")
    events, meta = [], []
    shapes = {"REFMASKED": 0, "no-ALT": 0, "no-SNV": 0, "NOA/AF0": 0, "dot-allele": 0}
    for k, (label, text, cargs) in enumerate(inputs):
        for r in vcftext.parse(text).records:
            src = abstract_src(r)
            if not is_assembled(label):
                continue
            events.append({"kind": "pair", "src": src, "prog": "none", "crashed": False, "present": True, "out": EMPTY_OUT})
            meta.append({"input": label, "line": r.line[:400]})
            shapes["REFMASKED"] += "REFMASKED" in r.info
            shapes["no-ALT"] += not r.alts
            shapes["no-SNV"] += r.info.get("SNVPOS") == "."
            shapes["NOA/AF0"] += bool(set(r.filters) & {"NOA", "AF0"})
            shapes["dot-allele"] += any("." in smp.get("GT", "") for smp in r.samples)
    for (k, prog, argv), rr in zip(pruns, res):
        if not rr["ok"]:
            ck.machinery_failure("program worker: %s" % rr["error"])
        label, text, _ = inputs[k]
        o = rr["result"]
        ck.evaluations += 1
        crashed = "error" in o
        ins = vcftext.parse(text).records
        outs = [] if crashed else vcftext.parse(o["out"]).records
        matched = match_records(ins, outs)
        for r, g in zip(ins, matched):
            src = abstract_src(r, is_assembled(label))
            ev = {"kind": "pair", "src": src, "prog": prog, "crashed": crashed, "present": g is not None, "out": abstract_out(g) if g is not None else EMPTY_OUT}
            events.append(ev)
            meta.append({"input": label, "prog": prog, "line": r.line[:400], "error": o.get("error"), "chain": o.get("chain"),
                         "output": g.line[:400] if g is not None else None})
        # the run as a whole: every input record re-emitted exactly once, nothing else printed (TraceHapCodec!RunVerdict)
        events.append({"kind": "run", "prog": prog, "crashed": crashed, "src": [run_key(r) for r in ins], "out": [run_key(r) for r in outs]})
        meta.append({"input": label, "prog": prog, "line": "whole run: %d input records, %d output records" % (len(ins), len(outs)),
                     "same_pos_adjacent": sum(1 for x, y in zip(ins, ins[1:]) if (x.chrom, x.pos) == (y.chrom, y.pos))})
        shapes["adjacent-same-POS"] = shapes.get("adjacent-same-POS", 0) + (meta[-1]["same_pos_adjacent"] if prog == "call" else 0)
    if cli_input is not None:
        # ... and `mchap call-exact` on it through the command line: exit status 0, same records as in-process
        k = cli_input
        argv = list(inputs[k][2]) + ["--haplotypes", os.path.join(wdir, "in-%d.vcf" % k)]
        cr = pool.map_tasks("impl.c12", [{"op": "cli", "argv": ["call-exact"] + argv}], mode="jit", warm_first=False)[0]
        inproc = [rr["result"] for (kk, prog, _), rr in zip(pruns, res) if kk == k and prog == "call-exact"][0]
        ck.evaluations += 1
        if not cr["ok"]:
            ck.machinery_failure("cli worker: %s" % cr["error"])
        if cr["result"]["rc"] != 0:
            ck.violation("aborted", {"cli": "mchap call-exact on the stdout of mchap assemble", "exit_status": cr["result"]["rc"],
                                     "stderr_tail": cr["result"]["err"][-400:]}, key={"site": "cli:call-exact", "error": "exit-status"})
        elif "out" in inproc:
            dl = lambda t: [l for l in t.splitlines() if l and not l.startswith("##")]
            if dl(cr["result"]["out"]) != dl(inproc["out"]):
                ck.violation("cli-differs", {"cli": "mchap call-exact"}, key={"site": "cli:call-exact", "field": "records"})
        ck.note("cli_pipeline_runs", 2)
    ph.mark("random-codec")
    # ---- code -> spec for the codec itself: seeded random records beyond the model bounds ----
    nrand = 400 if tier == "quick" else 5000
    rrecs = []
    for i in range(nrand):
        L = rnd.randint(1, 12) if i % 5 else rnd.randint(13, 40)
        ref = [rnd.choice("ACGT") for _ in range(L)]
        hot = [p_ for p_ in range(L) if rnd.random() < 0.4]
        rows = [ref]
        for _ in range(rnd.randint(0, 6)):
            h = list(ref)
            for p_ in hot:
                if rnd.random() < 0.6:
                    h[p_] = rnd.choice("ACGT")
            if h not in rows:
                rows.append(h)
        # the INFO/SNVPOS annotation the record arrives with: absent, '.', complete, superset, incomplete or stale
        poly = [p_ + 1 for p_ in range(L) if any(h[p_] != ref[p_] for h in rows[1:])]
        mode = i % 6
        if mode == 0:
            hint = {"kind": "absent", "cols": []}
        elif mode == 1:
            hint = {"kind": "dot", "cols": []}
        elif mode == 2:
            hint = {"kind": "list", "cols": poly} if poly else {"kind": "dot", "cols": []}
        elif mode == 3:     # what assemble writes: every input SNV of the locus, polymorphic in the haplotypes or not
            hint = {"kind": "list", "cols": sorted(set(poly) | {p_ + 1 for p_ in hot})} if (poly or hot) else {"kind": "dot", "cols": []}
        elif mode == 4:     # incomplete: some polymorphic columns missing (ALTs merged in from another file)
            keep = [c for c in poly if rnd.random() < 0.5]
            hint = {"kind": "list", "cols": keep} if keep else {"kind": "dot", "cols": []}
        else:               # stale: columns of another haplotype set
            cs = sorted(c for c in range(1, L + 1) if rnd.random() < 0.3)
            hint = {"kind": "list", "cols": cs} if cs else {"kind": "dot", "cols": []}
        rrecs.append({"ref": ref, "alts": rows[1:], "hint": hint})
    rtasks = []
    for a in range(0, nrand, 500):
        sub = rrecs[a:a + 500]
        rtasks.append({"op": "codec", "dir": wdir, "text": header() + "".join(line(s, 3 + j % 40, "R%d" % j) for j, s in enumerate(sub))})
    rres = pool.map_tasks("impl.c12", rtasks, mode="jit", warm_first=False)
    flat = []
    for rr in rres:
        if not rr["ok"]:
            ck.machinery_failure("codec worker: %s" % rr["error"])
        flat.extend(rr["result"])
    n_codec = 0
    for s, o in zip(rrecs, flat):
        a = o["seq"]
        if "error" in a:
            ck.violation("aborted", {"REF": "".join(s["ref"]), "ALT": ["".join(x) for x in s["alts"]], "error": a["error"]},
                         key={"site": SITE, "path": "sequences", "error": a["etype"]})
            continue
        b = o["snvpos"]
        trusted = {"ok": False, "cols": [], "matrix": [], "decoded": []} if "error" in b else \
            {"ok": True, "cols": b["cols"], "matrix": b["matrix"], "decoded": [list(x) for x in b["decoded"]]}
        events.append({"kind": "codec", "ref": s["ref"], "alts": s["alts"], "hint": s["hint"], "cols": a["cols"], "alleles": a["alleles"],
                       "matrix": a["matrix"], "decoded": [list(x) for x in a["decoded"]], "trusted": trusted})
        meta.append({"input": "random-record", "line": "REF=%s ALT=%s SNVPOS=%s" % ("".join(s["ref"]), ",".join("".join(x) for x in s["alts"]),
                                                                                   "(absent)" if s["hint"]["kind"] == "absent" else vcfgen.value(s["hint"]["cols"]))})
        n_codec += 1
    ck.note("random_codec_records", n_codec)
    ck.note("pipeline_inputs", len(inputs))
    ck.note("pipeline_program_runs", len(pruns))
    ck.note("assemble_record_shapes", shapes)

    ph.mark("trace")
    tf = os.path.join(ck.wd, "trace.json")
    with open(tf, "w") as fh:
        json.dump(events, fh)
    try:
        t = tlc.run(SPEC, "TraceHapCodec", "Trace.cfg", workers=1, extra_env={"TRACE_FILE": tf}, timeout=1700)
    except tlc.TLCError as e:
        ck.machinery_failure(str(e))
    ck.add_tlc(t, "TraceHapCodec")
    consumed = [p for p in t.printed if "consumed" in p]
    if not consumed or consumed[0]["consumed"] != len(events):
        ck.machinery_failure("trace not fully consumed: %s of %d" % (consumed, len(events)))
    for p in t.printed:
        if "reject" in p:
            e, m = events[p["reject"] - 1], meta[p["reject"] - 1]
            if e["kind"] == "codec":
                ck.violation("trace-reject", dict(m, clause=p["clause"], impl={k: e[k] for k in ("cols", "alleles", "matrix")}),
                             key={"site": SITE, "clause": p["clause"]})
            elif p["clause"] == "RunAborted":
                root = (m.get("chain") or [m.get("error") or "?"])[-1].split(":")[0]
                ck.violation("aborted", m, key={"site": "program:" + e["prog"], "error": root,
                                                "refmasked_input": "REFMASKED" in m["line"]})
            else:
                ck.violation("trace-reject", dict(m, clause=p["clause"]), key={"site": "program:" + e["prog"], "clause": p["clause"]})
    ck.traces += len(events)
    ck.evaluations += len(events)
    ck.note("pipeline_pairs_validated", len(events))
    rejected = {p["reject"] - 1 for p in t.printed if "reject" in p}
    good = [e for i, e in enumerate(events) if i not in rejected and e["kind"] == "pair" and e["prog"] != "none" and not e["crashed"] and e["present"]
            and len(e["out"]["alts"]) >= 2 and len(e["out"]["snvpos"]) >= 2 and e["src"]["has_snvpos"] and e["src"]["assembled"]]
    if not good:
        if not ck.violations:
            ck.machinery_failure("no accepted pipeline pair to corrupt")
        ph.mark("end")
        finish(ck, wdir)
    ck.sample({"kind": "pipeline-pair", "event": good[0]})
    bads = []
    b = copy.deepcopy(good[0]); b["out"]["alts"] = b["out"]["alts"][::-1] + [b["out"]["ref"]]; bads.append((b, "SameAlt"))
    b = copy.deepcopy(good[0]); b["out"]["pos"] += 1; bads.append((b, "SameLocus"))
    b = copy.deepcopy(good[0]); b["out"]["ref"] = b["out"]["ref"][:-1] + ["N"]; bads.append((b, "SameRef"))
    b = copy.deepcopy(good[0]); b["out"]["snvpos"] = b["out"]["snvpos"][:-1]; bads.append((b, "RecoveredSnvsArePolymorphicSubset"))
    b = copy.deepcopy(good[0]); b["out"]["gts"][0][0] = -1; b["out"]["filters"] = ["PASS"]; bads.append((b, "GenotypeComplete"))
    b = copy.deepcopy(good[0]); b["src"]["has_snvpos"] = True; b["src"]["snvpos"] = b["out"]["snvpos"][1:]; bads.append((b, "SnvColsSubsetOfSNVPOS"))
    b = copy.deepcopy(good[0]); b["present"] = False; bads.append((b, "RecordEmitted"))
    # a run that drops the second of two adjacent records sharing CHROM and POS / prints a record twice
    gr = [e for i, e in enumerate(events) if i not in rejected and e["kind"] == "run" and not e["crashed"]
          and any(x.split(":")[:2] == y.split(":")[:2] for x, y in zip(e["src"], e["src"][1:]))]
    if gr:
        b = copy.deepcopy(gr[0])
        j = [x.split(":")[:2] == y.split(":")[:2] for x, y in zip(b["src"], b["src"][1:])].index(True) + 1
        b["out"] = [x for x in b["out"] if x != b["src"][j]]; bads.append((b, "EveryRecordOnce"))
        b = copy.deepcopy(gr[0]); b["out"] = b["out"] + b["out"][:1]; bads.append((b, "EveryRecordOnce"))
    gc = [e for i, e in enumerate(events) if i not in rejected and e["kind"] == "codec" and len(e["cols"]) >= 2 and len(e["matrix"]) >= 3]
    if gc:
        b = copy.deepcopy(gc[0]); b["matrix"][1][0] += 1; bads.append((b, "Encode"))
        b = copy.deepcopy(gc[0]); b["cols"] = b["cols"][1:]; bads.append((b, "SnvColsArePolymorphic"))
        b = copy.deepcopy(gc[0]); b["decoded"][1][b["cols"][0] - 1] = "N"; bads.append((b, "RoundTrip"))
        withmulti = [e for e in gc if any(len(a) >= 3 for a in e["alleles"])]
        if withmulti:
            b = copy.deepcopy(withmulti[0])
            j = [len(a) >= 3 for a in b["alleles"]].index(True)
            b["alleles"][j] = [b["alleles"][j][0]] + b["alleles"][j][1:][::-1]
            bads.append((b, "FirstAppearanceNumbering"))
        # the SNVs searched only among the columns an incomplete SNVPOS names
        inc = [e for e in gc if e["hint"]["kind"] == "list" and e["hint"]["cols"] and not set(e["cols"]) <= set(e["hint"]["cols"])]
        if inc:
            b = copy.deepcopy(inc[0]); b["cols"] = [c for c in b["cols"] if c in b["hint"]["cols"]]; bads.append((b, "SnvColsArePolymorphic"))
        cov = [e for e in gc if e["hint"]["kind"] == "list" and e["trusted"]["ok"] and set(e["cols"]) <= set(e["hint"]["cols"])]
        if cov:
            b = copy.deepcopy(cov[0]); b["trusted"]["matrix"][1][0] += 1; bads.append((b, "CoveringSnvposRoundTrips"))
            b = copy.deepcopy(cov[0]); b["trusted"]["ok"] = False; bads.append((b, "CoveringSnvposRoundTrips"))
    tfb = os.path.join(ck.wd, "trace-corrupt.json")
    with open(tfb, "w") as fh:
        json.dump([b for b, _ in bads], fh)
    t = tlc.run(SPEC, "TraceHapCodec", "Trace.cfg", workers=1, extra_env={"TRACE_FILE": tfb})
    rej = {p["reject"]: p["clause"] for p in t.printed if "reject" in p}
    for i, (_, clause) in enumerate(bads):
        if rej.get(i + 1) != clause:
            ck.machinery_failure("corrupted trace %d not rejected by %s (got %s)" % (i + 1, clause, rej.get(i + 1)))
    ck.note("corrupted_traces_rejected", len(bads))
    ph.mark("end")
    finish(ck, wdir)


def finish(ck, wdir):
    try:
        import shutil

        shutil.rmtree(wdir, ignore_errors=True)
    except Exception:
        pass
    ck.exhaustive = True
    ck.assumptions = [
        "TLC and the CommunityModules Json/IOUtils operators are correct",
        "codec: exhaustive within the stated alphabets / lengths / ALT counts, MC_hint*.cfg also over every SNVPOS annotation (absent, '.', "
        "every non-empty column set); target lists: every ascending list of <= MaxRec targets of CallStream's target set (quick) / a seeded "
        "sample of them (thorough); pipeline: assemble outputs are sampled over a grid of "
        "thresholds, ploidies, BAM sets and seeds on the repo's test data (REFMASKED / ALT-less / SNV-less / '.'-allele records included, counted in evidence)",
        "VCF text is rendered by vlib/vcfgen.py and program output is read by vlib/vcftext.py (no pysam on the oracle side)",
    ]
    ck.finish()


if __name__ == "__main__":
    main()
