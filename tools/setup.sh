#!/bin/sh
# Offline setup: parse every spec module, byte-compile the harness, create scratch dirs.
set -e
cd "$(dirname "$0")/.."
mkdir -p work evidence .cache
fail=0
for f in spec/*/*.tla spec/common/*.tla; do
  d=$(dirname "$f")
  out=$(cd "$d" && java -DTLA-Library="$(pwd)/../common" -cp /opt/veriftools/tla/tla2tools.jar:/opt/veriftools/tla/CommunityModules-deps.jar tla2sany.SANY "$(basename "$f")" 2>&1) || true
  if echo "$out" | grep -qiE "\*\*\* Errors|Fatal|Could not|Abort"; then
    echo "SANY FAILED: $f"; echo "$out" | tail -15; fail=1
  fi
done
/venv/bin/python -m compileall -q harness >/dev/null || fail=1
/venv/bin/python -c "import numba, numpy, pysam" || fail=1
exit $fail
