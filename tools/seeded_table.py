#!/usr/bin/env python3
"""Print the markdown table of kept seeded changes (DESIGN.md section 7.4 is generated with this)."""
import json, os
rows = []
for d in sorted(os.listdir('/verif/seeded')):
    p = os.path.join('/verif/seeded', d, 'meta.json')
    if not os.path.exists(p):
        continue
    m = json.load(open(p))
    kinds = []
    for chk, r in m.get('checks_run', {}).items():
        ks = sorted({k.split(' key=')[0].replace('kind=', '') for k in r.get('violation_kinds', [])})
        kinds.append("%s: %s" % (chk, ', '.join(ks[:3]) or ('exit %s' % r.get('exit'))))
    wave = m.get('wave', 'a')
    default = 'caught by the first version' if wave == 'a' else 'caught by the check as it stood when round %s arrived' % wave
    rows.append("| `%s` | %s | %s | %s | %s | %s |" % (d, m.get('property'), wave, (m.get('summary') or '')[:150].replace('|', '/').replace('\n', ' '),
                                                  ' ; '.join(kinds), (m.get('history') or default)[:220].replace('|', '/')))
print("| seeded change | property | round | what it does | caught by (violation kinds) | note |\n|---|---|---|---|---|---|")
print("\n".join(rows))
