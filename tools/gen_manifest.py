#!/usr/bin/env python3
"""Regenerate MANIFEST.json from the table below (keeps it schema-valid)."""
import json
import os

HERE = os.path.dirname(os.path.dirname(os.path.abspath(__file__)))

# id -> (design_ref, technique, level text, level note)
CLAIMED = {}


def claim(pid, design_ref, technique, text, note):
    CLAIMED[pid] = (design_ref, technique, text, note)


exec(open(os.path.join(HERE, "tools", "claims.py")).read())

ALL = [json.loads(l)["id"] for l in open(os.path.join(HERE, "properties.jsonl"))]

NOT_YET = "check not built yet in this build session (work in progress; see DESIGN.md section 3 for the planned TLA+ model)"

manifest = {
    "version": 1,
    "setup_cmd": "sh tools/setup.sh",
    "hooks": {
        "guard": "MCHAP_VERIF",
        "enable": "no source hooks: observation is by wrapping module attributes in interpreted (NUMBA_DISABLE_JIT=1) worker processes and by calling the compiled functions; checks export MCHAP_VERIF=1 and import /repo's working tree via PYTHONPATH",
        "baseline_off_cmd": "cd /repo && /venv/bin/python -m pytest -ra -q -p no:cacheprovider --timeout=900 --continue-on-collection-errors",
        "source_commits": [],
        "add_only": True,
    },
    "engines": [
        {
            "name": "tlc-conformance",
            "path": "harness/",
            "serves_properties": sorted(CLAIMED),
            "kind_free_text": "explicit TLA+ specifications (spec/) model-checked with TLC; every TLC state/behaviour replayed into the real code (compiled and interpreted) and recorded implementation traces validated by TLC trace specifications",
        },
        {
            "name": "tlc-conformance-extras",
            "path": "harness/check_X01.py harness/check_X02.py harness/check_X03.py harness/check_X04.py harness/check_X05.py",
            "serves_properties": [],
            "kind_free_text": "the same technique applied to system behaviour outside the 20 listed properties (specification growth): X01 sampler start states, greedy caller, quality / MEC fields (spec/StartAndQuality); X02 command-line configuration resolution (spec/Arguments); X03 PEDERR statistic, multiset algebra, k-mer statistics (spec/PedErrAndBags); X04 counting, dosage and log-space arithmetic, gametes and crosses (spec/CountingAndDosage); X05 sequence encodings, targets files / SNP merging, VCF value and record text (spec/EncodingAndLoci). Run with ./check X0n --tier quick|thorough; evidence in evidence/X0n.json; their findings are listed in KNOWN_FINDINGS.json under X0n and never raise an alarm for a listed property.",
        },
    ],
    "checks": [],
    "not_applicable": [],
    "notes": "See DESIGN.md. ./check <id> [--tier quick|thorough]; exit 0 ok, 1 VIOLATION, 2 machinery failure. VERIF_SEED and VERIF_TIER honoured. KNOWN_FINDINGS.json lists genuine defects (open or fixed).",
}
for pid in ALL:
    if pid in CLAIMED:
        ref, tech, text, note = CLAIMED[pid]
        manifest["checks"].append(
            {
                "property_id": pid,
                "quick_cmd": "./check %s --tier quick" % pid,
                "thorough_cmd": "./check %s --tier thorough" % pid,
                "evidence_file": "/verif/evidence/%s.json" % pid,
                "replay_cmd_template": "./check %s --replay {path}" % pid,
                "engine": "tlc-conformance",
                "level_claimed": {"category": "model_checking", "text": text, "design_ref": ref},
                "level_note": note,
                "technique": tech,
            }
        )
    else:
        manifest["not_applicable"].append({"property_id": pid, "reason": NOT_YET})
with open(os.path.join(HERE, "MANIFEST.json"), "w") as fh:
    json.dump(manifest, fh, indent=1)
print("claimed:", sorted(CLAIMED), "not claimed:", [p for p in ALL if p not in CLAIMED])
