#!/bin/sh
# tools/try_seeded.sh <change-dir> <property> [more properties...]
# Confirms a seeded change (demo passes on HEAD, fails with the patch) and runs the named checks against the patched
# scratch worktree (VERIF_REPO), never touching /repo's working tree.  Prints one line per step.
set -u
D=$(cd "$1" && pwd); shift
W=/tmp/scratch/lead/seed-$$
mkdir -p /tmp/scratch/lead
git -C /repo worktree add --detach "$W" HEAD -q || exit 2
export PYTHONDONTWRITEBYTECODE=1
cd "$D"
# numba's on-disk cache does not track callees in other files: one cache directory per tree
NUMBA_CACHE_DIR=/tmp/scratch/lead/nb-seed-a-$$ PYTHONPATH="$W" timeout 1200 /venv/bin/python "$D/demo.py" >/dev/null 2>&1; echo "demo pristine exit=$?"
export NUMBA_CACHE_DIR=/tmp/scratch/lead/nb-seed-b-$$
if ! git -C "$W" apply "$D/patch.diff"; then echo "PATCH DOES NOT APPLY"; git -C /repo worktree remove --force "$W"; exit 2; fi
PYTHONPATH="$W" timeout 1200 /venv/bin/python "$D/demo.py" >/dev/null 2>&1; echo "demo patched exit=$?"
for P in "$@"; do
  cd /verif
  VERIF_REPO="$W" VERIF_WORK=/verif/work/seeded-$$ VERIF_EVIDENCE=/verif/work/seeded-$$/evidence ./check "$P" --tier ${TIER:-quick} > "$D/check-$P.log" 2>&1; rc=$?
  echo "check $P exit=$rc violations=$(grep -c '^VIOLATION' "$D/check-$P.log") first: $(grep -m1 -A1 '^VIOLATION' "$D/check-$P.log" | tail -1 | cut -c1-160)"
done
git -C /repo worktree remove --force "$W"
rm -rf /verif/work/seeded-$$ /tmp/scratch/lead/nb-seed-a-$$ /tmp/scratch/lead/nb-seed-b-$$
