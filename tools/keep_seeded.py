#!/usr/bin/env python3
"""keep_seeded.py <change-dir> <name> <property> <detected-by...>: copy a confirmed seeded change into /verif/seeded/<name>/"""
import json, os, shutil, sys
src, name, prop = sys.argv[1:4]
det = sys.argv[4:]
dst = os.path.join('/verif/seeded', name)
os.makedirs(dst, exist_ok=True)
for f in ('patch.diff', 'demo.py'):
    shutil.copy(os.path.join(src, f), dst)
meta = json.load(open(os.path.join(src, 'meta.json')))
logs = {}
for f in sorted(os.listdir(src)):
    if f.startswith('check-') and f.endswith('.log'):
        txt = open(os.path.join(src, f)).read().splitlines()
        v = [l for l in txt if l.startswith('VIOLATION')]
        kinds = sorted({l.strip() for l in txt if l.strip().startswith('kind=')})[:8]
        logs[f[6:-4]] = {"exit": 1 if v else 0, "violation_lines": len(v), "violation_kinds": kinds, "last_line": txt[-1] if txt else ""}
if not det:
    det = sorted(c for c, r in logs.items() if r["exit"] == 1)
meta.update({"property": prop, "confirmed_by_lead": "tools/try_seeded.sh: demo exits 0 on pristine HEAD and 1 with the patch (fresh numba cache per tree); agent ran the full suite with the patch (1203 passed)",
             "checks_run": logs, "detected_by": det})
json.dump(meta, open(os.path.join(dst, 'meta.json'), 'w'), indent=1)
print(dst, det)
