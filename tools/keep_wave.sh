#!/bin/sh
# tools/keep_wave.sh <suffix> <Cxx> [extra checks...] : final evaluation of /tmp/seeded/<Cxx><suffix>/change{1,2} and copy into /verif/seeded
cd /verif
S=$1; P=$2; shift 2
for n in 1 2; do
  d=/tmp/seeded/$P$S/change$n
  [ -f $d/patch.diff ] || { echo "== $P$S change$n MISSING"; continue; }
  rm -f $d/check-*.log
  echo "== $P$S change$n: $(tools/try_seeded.sh $d $P "$@" 2>&1 | tr '\n' ' ' | cut -c1-600)"
  python3 tools/keep_seeded.py $d $P$S-$n $P
done
