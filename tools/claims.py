claim(
    "C11",
    "DESIGN.md section 3, C11",
    "TLA+ model of the VCF genotype order (GenotypeIndex.tla, Pascal.tla) checked exhaustively with TLC; every TLC state replayed into the compiled and interpreted index/enumerator/binomial functions; recorded calls on large arguments validated by TraceGenotypes.tla",
    "Bounded-exhaustive model checking of the ordering/bijection/enumerator model over a grid of (alleles, ploidy) instances and of Pascal rows in exact limb arithmetic, with conformance in both directions: each model state is executed on the real functions, and implementation calls on random large arguments are accepted or rejected by TLC.",
    "Trusts TLC/CommunityModules, Python big integers for limb conversion, and numba compiling the same source the interpreted run executes. Exhaustive only inside the stated grids; beyond them seeded sampling.",
)
claim(
    "C01",
    "DESIGN.md section 3, C01",
    "TLA+ model of the assemble moves on unordered genotypes (AssembleMoves.tla: mutation, interval recombination, interval / full-length dosage swap; exact-rational detailed balance at two temperatures, novelty, distinctness, reversibility, irreducibility) model-checked with TLC; every reachable bag replayed in every row order into the compiled option functions and the interpreted base_step/interval_step kernels (probability vectors captured by replacing random_choice); complete recorded fits validated by TraceAssemble.tla",
    "TLC visits every unordered genotype of each bounded (ploidy, SNVs, alleles) instance and proves, in exact rationals, that the modelled proposal structure and acceptance rule satisfy detailed balance for the tempered target; the conformance step shows that the real option lists, option counts, return counts, copy-count ratios and full transition probability vectors equal the model's for every ordered state, interval, move type and a set of real read sets / inbreeding / temperatures, checks detailed balance of the extracted real kernel directly, and validates whole sampler runs (temperature per rung, sweep completeness, exchange swapping matrices and carried likelihoods) event by event.",
    "Trusts TLC, numba compiling the same source that interpreted mode executes (probability vectors are only observable interpreted), and the repository's likelihood/prior functions for the factors u(G) (subjects of C04/C05). Exhaustive inside the stated grids; continuous parameters are sampled.",
)
claim(
    "C09",
    "DESIGN.md section 3, C09",
    "Faithful TLA+ model of the arraymap trie cache (ArrayMap.tla: node/value arrays, growth, flush) with a ghost abstract map, refinement invariants model-checked by TLC over all set histories; every generated edge replayed into the real arraymap comparing the whole stored structure; cache histories recorded from interpreted assemble / call / call-pedigree sampler runs validated by TraceCache.tla against the model with freshly recomputed likelihoods; same-seed trajectories with cache off / on / resized compared",
    "Exhaustive refinement check of the cache data structure within small constants (including repeated growth and flushes) bound to the code in both directions, plus trace validation of what the three real samplers store, are served and carry (every stored / served / carried value compared with a from-scratch recomputation on that sample's own reads), and trajectory equality for the assemble cache.",
    "Trusts TLC, numba compiling the interpreted source faithfully (cache histories are observed in interpreted mode; arraymap and trajectories also compiled), and log_likelihood as the reference for 'fresh' values. Sampler histories are sampled (seeded), the data-structure model is exhaustive within its constants.",
)
claim(
    "C15",
    "DESIGN.md section 3, C15",
    "TLA+ models of the mutation sweep (Sweep.tla, incl. the element width of the sub-step table), random_breaks (Breaks.tla) and fixed-homozygous reinsertion (FixHom.tla) model-checked with TLC; every sweep behaviour / partition / probability table replayed into the real compound_step (interpreted recorder and compiled black box), random_breaks and DenovoMCMC._mcmc; recorded sweeps, breaks and interval steps of real fits validated by TraceBreaks.tla",
    "Bounded-exhaustive model checking (every shuffle for small instances, SNV counts straddling the int8 boundary up to 300, every partition for n <= 8/11, every dyadic homozygosity table) with conformance in both directions; the compiled sweep is observed as a black box in which a never-visited cell is deterministically detectable.",
    "Trusts TLC and numba compiling the interpreted source faithfully. random_breaks support equality uses a fixed number of seeded draws per (n, breaks). FixHom assumes a threshold above 1/2.",
)
claim(
    "C20",
    "DESIGN.md section 3, C20; notes/report-C12-C16-C20.md",
    "TLA+ model of the per-SNV projection (AtomizeOps/Atomize.tla, record domain spanned by build actions, emit/skip actions) model-checked with TLC; every record rendered to VCF and run through the real atomize_vcf, compared line by line; real program outputs, goldens and random records validated by TraceAtomize.tla",
    "TLC visits every haplotype record of the bounded domain (<= 2 ALT x <= 2 SNV sites over {A,C,G}, no-ALT / no-SNV / monomorphic sites / '.' alleles / five posterior modes incl. missing AFP/ACP, ploidies 1x 2x 4x) and checks the projection invariants; every record is replayed through the real program and every emitted line of real assemble / call / call-exact outputs is validated in TLC against the model.",
    "Trusts TLC and the Json/IOUtils modules, vlib/vcfgen.py rendering, vlib/vcftext.py parsing and Python Fraction. Exhaustive within the stated record domain; larger records are sampled (seeded).",
)
claim(
    "C16",
    "DESIGN.md section 3, C16; notes/report-C12-C16-C20.md",
    "TLA+ model of allele filtering and prior-frequency handling (AlleleFilterOps/AlleleFilter.tla: step-wise machine checked against a declarative definition) model-checked with TLC; every state replayed into LocusPrior.from_variant_record; a covering subset run through call, call-exact and call-pedigree with every output record validated by TraceAlleleFilter.tla",
    "TLC enumerates every record x filter (7 operator spellings x thresholds x R/A-length field) x prior tag x Float/Integer type of the bounded domain and checks the stated clauses; every state is executed on the real record parser and a covering subset through the three calling programs (in-process and CLI), with FILTER/GT/AFP/GP/AFPRIOR/REFMASKED validated in TLC.",
    "Trusts TLC, pysam/htslib INFO parsing on the implementation side, vcfgen/vcftext, and the repository BAMs as read data. Values are integer or dyadic so that text, float32 and float64 agree; non-dyadic boundaries are not generated.",
)
claim(
    "C12",
    "DESIGN.md section 3, C12; notes/report-C12-C16-C20.md",
    "TLA+ model of the haplotype codec (HapCodecOps/HapCodec.tla: SNV columns, first-appearance allele numbering, encode, decode) model-checked with TLC; every record replayed into from_variant_record / encode_haplotypes / format_haplotypes; (assemble record, call / call-exact record) pairs of real pipelines validated by TraceHapCodec.tla",
    "TLC visits every REF + up to 3 distinct ALT record over the bounded alphabets / lengths and checks the round trip and numbering invariants; each state is executed on the real codec (both SNV paths); the pipeline clause is decided by validating in TLC every pair produced by feeding golden, freshly assembled and synthetic REFMASKED assemble outputs to call and call-exact.",
    "Trusts TLC, vcfgen/vcftext. Assemble outputs are sampled on the repository's test data (threshold x ploidy x BAM-set grid), not exhaustive.",
)
