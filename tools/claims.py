claim(
    "C11",
    "DESIGN.md section 3, C11",
    "TLA+ model of the VCF genotype order (GenotypeIndex.tla, Pascal.tla) checked exhaustively with TLC; every TLC state replayed into the compiled and interpreted index/enumerator/binomial functions; recorded calls on large arguments validated by TraceGenotypes.tla",
    "Bounded-exhaustive model checking of the ordering/bijection/enumerator model over a grid of (alleles, ploidy) instances and of Pascal rows in exact limb arithmetic, with conformance in both directions: each model state is executed on the real functions, and implementation calls on random large arguments are accepted or rejected by TLC.",
    "Trusts TLC/CommunityModules, Python big integers for limb conversion, and numba compiling the same source the interpreted run executes. Exhaustive only inside the stated grids; beyond them seeded sampling.",
)
