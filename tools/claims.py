claim(
    "C11",
    "DESIGN.md section 3, C11",
    "TLA+ model of the VCF genotype order (GenotypeIndex.tla, Pascal.tla) checked exhaustively with TLC; every TLC state replayed into the compiled and interpreted index/enumerator/binomial functions; recorded calls on large arguments validated by TraceGenotypes.tla",
    "Bounded-exhaustive model checking of the ordering/bijection/enumerator model over a grid of (alleles, ploidy) instances and of Pascal rows in exact limb arithmetic, with conformance in both directions: each model state is executed on the real functions, and implementation calls on random large arguments are accepted or rejected by TLC.",
    "Trusts TLC/CommunityModules, Python big integers for limb conversion, and numba compiling the same source the interpreted run executes. Exhaustive only inside the stated grids; beyond them seeded sampling.",
)
claim(
    "C01",
    "DESIGN.md section 3, C01",
    "TLA+ model of the assemble moves on unordered genotypes (AssembleMoves.tla: mutation, interval recombination, interval / full-length dosage swap; exact-rational detailed balance at two temperatures, novelty, distinctness, reversibility, irreducibility) model-checked with TLC; every reachable bag replayed in every row order into the compiled option functions and the interpreted base_step/interval_step kernels (probability vectors captured by replacing random_choice); complete recorded fits validated by TraceAssemble.tla",
    "TLC visits every unordered genotype of each bounded (ploidy, SNVs, alleles) instance and proves, in exact rationals, that the modelled proposal structure and acceptance rule satisfy detailed balance for the tempered target; the conformance step shows that the real option lists, option counts, return counts, copy-count ratios and full transition probability vectors equal the model's for every ordered state, interval, move type and a set of real read sets / inbreeding / temperatures, checks detailed balance of the extracted real kernel directly, and validates whole sampler runs (temperature per rung, sweep completeness, exchange swapping matrices and carried likelihoods) event by event.",
    "Trusts TLC, numba compiling the same source that interpreted mode executes (probability vectors are only observable interpreted), and the repository's likelihood/prior functions for the factors u(G) (subjects of C04/C05). Exhaustive inside the stated grids; continuous parameters are sampled.",
)
claim(
    "C09",
    "DESIGN.md section 3, C09",
    "Faithful TLA+ model of the arraymap trie cache (ArrayMap.tla: node/value arrays, growth, flush) with a ghost abstract map, refinement invariants model-checked by TLC over all set histories; every generated edge replayed into the real arraymap comparing the whole stored structure; cache histories recorded from interpreted assemble / call / call-pedigree sampler runs validated by TraceCache.tla against the model with freshly recomputed likelihoods; same-seed trajectories with cache off / on / resized compared",
    "Exhaustive refinement check of the cache data structure within small constants (including repeated growth and flushes) bound to the code in both directions, plus trace validation of what the three real samplers store, are served and carry (every stored / served / carried value compared with a from-scratch recomputation on that sample's own reads), and trajectory equality for the assemble cache.",
    "Trusts TLC, numba compiling the interpreted source faithfully (cache histories are observed in interpreted mode; arraymap and trajectories also compiled), and log_likelihood as the reference for 'fresh' values. Sampler histories are sampled (seeded), the data-structure model is exhaustive within its constants.",
)
claim(
    "C15",
    "DESIGN.md section 3, C15",
    "TLA+ models of the mutation sweep (Sweep.tla, incl. the element width of the sub-step table), random_breaks (Breaks.tla) and fixed-homozygous reinsertion (FixHom.tla) model-checked with TLC; every sweep behaviour / partition / probability table replayed into the real compound_step (interpreted recorder and compiled black box), random_breaks and DenovoMCMC._mcmc; recorded sweeps, breaks and interval steps of real fits validated by TraceBreaks.tla",
    "Bounded-exhaustive model checking (every shuffle for small instances, SNV counts straddling the int8 boundary up to 300, every partition for n <= 8/11, every dyadic homozygosity table) with conformance in both directions; the compiled sweep is observed as a black box in which a never-visited cell is deterministically detectable.",
    "Trusts TLC and numba compiling the interpreted source faithfully. random_breaks support equality uses a fixed number of seeded draws per (n, breaks). FixHom assumes a threshold above 1/2.",
)
