claim(
    "C11",
    "DESIGN.md section 3, C11 and 7.2 / 7.2.1 (as built)",
    "TLA+ model of the VCF genotype order (GenotypeIndex.tla, Pascal.tla) checked exhaustively with TLC; every TLC state replayed into the compiled and interpreted index/enumerator/binomial functions; recorded calls on large arguments validated by TraceGenotypes.tla",
    "Bounded-exhaustive model checking of the ordering/bijection/enumerator model over a grid of (alleles, ploidy) instances and of Pascal rows in exact limb arithmetic, with conformance in both directions: each model state is executed on the real functions, and implementation calls on random large arguments are accepted or rejected by TLC.",
    "Trusts TLC/CommunityModules, Python big integers for limb conversion, and numba compiling the same source the interpreted run executes. Exhaustive only inside the stated grids; beyond them seeded sampling.",
)
claim(
    "C01",
    "DESIGN.md section 3, C01 and 7.2 / 7.2.1 (as built)",
    "TLA+ model of the assemble moves on unordered genotypes (AssembleMoves.tla: mutation, interval recombination, interval / full-length dosage swap; exact-rational detailed balance at two temperatures, novelty, distinctness, reversibility, irreducibility) model-checked with TLC; every reachable bag replayed in every row order into the compiled option functions and the interpreted base_step/interval_step kernels (probability vectors captured by replacing random_choice); complete recorded fits validated by TraceAssemble.tla",
    "TLC visits every unordered genotype of each bounded (ploidy, SNVs, alleles) instance and proves, in exact rationals, that the modelled proposal structure and acceptance rule satisfy detailed balance for the tempered target; the conformance step shows that the real option lists, option counts, return counts, copy-count ratios and full transition probability vectors equal the model's for every ordered state, interval, move type and a set of real read sets / inbreeding / temperatures, checks detailed balance of the extracted real kernel directly, and validates whole sampler runs (temperature per rung, sweep completeness, exchange swapping matrices and carried likelihoods) event by event.",
    "Trusts TLC, numba compiling the same source that interpreted mode executes (probability vectors are only observable interpreted), and the repository's likelihood/prior functions for the factors u(G) (subjects of C04/C05). Exhaustive inside the stated grids; continuous parameters are sampled.",
)
claim(
    "C09",
    "DESIGN.md section 3, C09 and 7.2 / 7.2.1 (as built)",
    "Faithful TLA+ model of the arraymap trie cache (ArrayMap.tla: node/value arrays, growth, flush) with a ghost abstract map, refinement invariants model-checked by TLC over all set histories; every generated edge replayed into the real arraymap comparing the whole stored structure; cache histories recorded from interpreted assemble / call / call-pedigree sampler runs validated by TraceCache.tla against the model with freshly recomputed likelihoods; same-seed trajectories with cache off / on / resized compared",
    "Exhaustive refinement check of the cache data structure within small constants (including repeated growth and flushes) bound to the code in both directions, plus trace validation of what the three real samplers store, are served and carry (every stored / served / carried value compared with a from-scratch recomputation on that sample's own reads), and trajectory equality for the assemble cache.",
    "Trusts TLC, numba compiling the interpreted source faithfully (cache histories are observed in interpreted mode; arraymap and trajectories also compiled), and log_likelihood as the reference for 'fresh' values. Sampler histories are sampled (seeded), the data-structure model is exhaustive within its constants.",
)
claim(
    "C15",
    "DESIGN.md section 3, C15 and 7.2 / 7.2.1 (as built)",
    "TLA+ models of the mutation sweep (Sweep.tla, incl. the element width of the sub-step table), random_breaks (Breaks.tla) and fixed-homozygous reinsertion (FixHom.tla) model-checked with TLC; every sweep behaviour / partition / probability table replayed into the real compound_step (interpreted recorder and compiled black box), random_breaks and DenovoMCMC._mcmc; recorded sweeps, breaks and interval steps of real fits validated by TraceBreaks.tla",
    "Bounded-exhaustive model checking (every shuffle for small instances, SNV counts straddling the int8 boundary up to 300, every partition for n <= 8/11, every dyadic homozygosity table) with conformance in both directions; the compiled sweep is observed as a black box in which a never-visited cell is deterministically detectable.",
    "Trusts TLC and numba compiling the interpreted source faithfully. random_breaks support equality uses a fixed number of seeded draws per (n, breaks). FixHom assumes a threshold above 1/2.",
)
claim(
    "C20",
    "DESIGN.md section 3, C20 and 7.2 / 7.2.1 (as built); notes/report-C12-C16-C20.md",
    "TLA+ model of the per-SNV projection (AtomizeOps/Atomize.tla, record domain spanned by build actions, emit/skip actions) model-checked with TLC; every record rendered to VCF and run through the real atomize_vcf, compared line by line; real program outputs, goldens and random records validated by TraceAtomize.tla",
    "TLC visits every haplotype record of the bounded domain (<= 2 ALT x <= 2 SNV sites over {A,C,G}, no-ALT / no-SNV / monomorphic sites / '.' alleles / five posterior modes incl. missing AFP/ACP, ploidies 1x 2x 4x) and checks the projection invariants; every record is replayed through the real program and every emitted line of real assemble / call / call-exact outputs is validated in TLC against the model.",
    "Trusts TLC and the Json/IOUtils modules, vlib/vcfgen.py rendering, vlib/vcftext.py parsing and Python Fraction. Exhaustive within the stated record domain; larger records are sampled (seeded).",
)
claim(
    "C16",
    "DESIGN.md section 3, C16 and 7.2 / 7.2.1 (as built); notes/report-C12-C16-C20.md",
    "TLA+ model of allele filtering and prior-frequency handling (AlleleFilterOps/AlleleFilter.tla: step-wise machine checked against a declarative definition) model-checked with TLC; every state replayed into LocusPrior.from_variant_record; a covering subset run through call, call-exact and call-pedigree with every output record validated by TraceAlleleFilter.tla",
    "TLC enumerates every record x filter (7 operator spellings x thresholds x R/A-length field) x prior tag x Float/Integer type of the bounded domain and checks the stated clauses; every state is executed on the real record parser and a covering subset through the three calling programs (in-process and CLI), with FILTER/GT/AFP/GP/AFPRIOR/REFMASKED validated in TLC.",
    "Trusts TLC, pysam/htslib INFO parsing on the implementation side, vcfgen/vcftext, and the repository BAMs as read data. Values are integer or dyadic so that text, float32 and float64 agree; non-dyadic boundaries are not generated.",
)
claim(
    "C12",
    "DESIGN.md section 3, C12 and 7.2 / 7.2.1 (as built); notes/report-C12-C16-C20.md",
    "TLA+ model of the haplotype codec (HapCodecOps/HapCodec.tla: SNV columns, first-appearance allele numbering, encode, decode) model-checked with TLC; every record replayed into from_variant_record / encode_haplotypes / format_haplotypes; (assemble record, call / call-exact record) pairs of real pipelines validated by TraceHapCodec.tla",
    "TLC visits every REF + up to 3 distinct ALT record over the bounded alphabets / lengths and checks the round trip and numbering invariants; each state is executed on the real codec (both SNV paths); the pipeline clause is decided by validating in TLC every pair produced by feeding golden, freshly assembled and synthetic REFMASKED assemble outputs to call and call-exact.",
    "Trusts TLC, vcfgen/vcftext. Assemble outputs are sampled on the repository's test data (threshold x ploidy x BAM-set grid), not exhaustive.",
)
claim(
    "C05",
    "DESIGN.md section 3, C05 and 7.2 / 7.2.1 (as built); notes/report-C04-C05.md",
    "TLA+ model of the multinomial / Dirichlet-multinomial genotype prior in exact integer (BigNat) weights (PriorWeights/Priors.tla: enumerator walk accumulating sums and moments) model-checked with TLC; every state replayed into the three prior functions (compiled and interpreted); recorded calls on random k/64 parameters validated by TracePriors.tla",
    "Bounded-exhaustive TLC model checking of properness, the zero-frequency clause, mean-dosage and homozygosity identities, the exact single-allele conditional, chain rule, marginal consistency and assemble = flat call over 1 680 (quick) / 3 492 (thorough) rational instances, with conformance in both directions.",
    "Trusts TLC and CommunityModules, Python fractions, and numba compiling the source that the interpreted run executes. Exhaustive only inside the stated rational grid; float parameters are covered numerically at 1e-9.",
)
claim(
    "C04",
    "DESIGN.md section 3, C04 and 7.2 / 7.2.1 (as built); notes/report-C04-C05.md",
    "TLA+ model of the read mixture likelihood in exact integer numerators (ReadWeights/Likelihood.tla: mixture machine and column-by-column rearrangement machine) model-checked with TLC; every state replayed into the seven likelihood entry points and structural_change (compiled and interpreted, single-read values reproduce the exact numerators); recorded calls on random tensors validated by TraceLikelihood.tla",
    "TLC enumerates every genotype x read set of each bounded shape (gaps, the 7/8 grid, zero-probability non-alleles, counts 0..2) and every genotype x arbitrary index vector x interval, checking order invariances, count = duplication, gap = 1 and redirect-evaluation = rearranged-genotype; conformance in both directions.",
    "Trusts TLC and CommunityModules, Python fractions and numba compiling the interpreted source. Exhaustive for the listed shapes (P <= 4, N <= 4) on the P(correct) = 7/8 grid; other tensors are covered by the TLC-checked theorems as code-vs-code relations at 1e-9.",
)
claim(
    "C17",
    "DESIGN.md section 3, C17 and 7.2 / 7.2.1 (as built); notes/report-C17-C18.md",
    "First-principles TLA+ model of gamete formation and trio inheritance in exact rationals (PedInheritance/Inheritance.tla: progeny / gamete walks) model-checked with TLC; every walk replayed into compiled trio_log_pmf, gamete_log_pmf, trio_valid, duo_valid; random recorded calls validated in BigNat by TraceInheritance.tla",
    "TLC checks sum-to-one, positive-iff-supported / positive-iff-valid, multinomial reduction, p-q symmetry and equivalence of subset-counting and closed-form gamete pmfs exactly in every state of the walk of every instance (19 family shapes quick, 31 thorough: ploidy 2/4/6, balanced / unbalanced / clonal tau, lambda, error, zero frequencies); conformance in both directions at 1e-9.",
    "Trusts TLC and CommunityModules Json, Python Fraction, numba compiling the same source; exhaustive only within the listed shapes and parameter menus.",
)
claim(
    "C18",
    "DESIGN.md section 3, C18 and 7.2 / 7.2.1 (as built); notes/report-C17-C18.md",
    "TLA+ model of the pedigree sampler moves over joint states (PedigreeSampler.tla: Gibbs with origin decomposition and Markov blanket, MH, parental allele swap) with exact-rational full-conditional / detailed-balance invariants model-checked by TLC; every joint state replayed into compiled gibbs_probabilities / metropolis_hastings_probabilities and interpreted pair_allele_swap_step with forced draws; recorded sampler runs validated by TracePedigree.tla",
    "TLC explores every joint state reachable by positive-probability moves in 10 (quick) / 15 (thorough) pedigrees (founders, duo, trios, selfing, half-sibs, two generations, mixed ploidy with unbalanced tau, double reduction, clone) and proves in exact arithmetic that the structured Gibbs weights equal the full conditional of the declarative joint and that MH and swap ratios equal the target ratio; conformance in both directions.",
    "Trusts TLC and Json, Python Fraction; pair_allele_swap_step is observed in full only interpreted (compiled on homozygous-parent states); reads restricted to the 7/8 rational family; pedigrees <= 5 individuals, K <= 3.",
)
claim(
    "C08",
    "DESIGN.md section 3, C08 and 7.2 / 7.2.1 (as built); notes/report-C08.md",
    "TLA+ process model of the single / multi-core output orchestration (MultiCore.tla: main, writer, workers, pool exits, teardown; safety invariants + liveness under fairness) and of RNG reseeding (Reseed.tla) model-checked with TLC; every transition / maximal behaviour replayed in lock-step into the real _run_stdout_multi_core / _worker / _writer with a fake multiprocessing; recorded fork-pool runs, CLI run summaries and RNG-fingerprint histories validated by TraceMultiCore.tla / TraceReseed.tla",
    "TLC exhaustively checks every interleaving (quick <= 4 loci x <= 3 cores, thorough <= 6 x <= 4, with no failure / a failing locus at any position) for NoDuplicate, Intact, HeaderOnce, KillLast, Exit0Complete, FailNonZero, SingleCoreEquivalent, deadlock freedom and fair termination, and Reseed for OutputFunctionOfSeed; behaviours are replayed into the real orchestration code step by step; real multi-process runs and CLI runs of the four programs (cores, orders, subsets, repeats, failing loci) are validated against the spec.",
    "Trusts TLC and CommunityModules; multiprocessing.Pool / Manager().Queue() semantics as reproduced by the lock-step fake; real OS schedules are sampled, not enumerated; sha1 fingerprints and log normalisation in check_C08.py.",
)
claim(
    "C06",
    "DESIGN.md section 3, C06 and 7.2 / 7.2.1 (as built); notes/report-C06-C19.md",
    "TLA+ model of read extraction (ReadExtract.tla: filter cascade and mate merging per abstract alignment, for every configuration at once; RefSources.tla for the reference-mismatch clause) model-checked with TLC; every state concretised into real BAM/FASTA/VCF files (bamgen) and compared with extract_read_variants / encode_sample_reads and the assemble / call-exact command lines; repository and random BAMs abstracted by an independent SAM-text walker and validated by TraceReadExtract.tla",
    "TLC model-checks every bag of <= 2 (wide alphabet) / <= 3 (narrow) abstract alignments under 32-64 filter / read-group / layout configurations plus hundreds of seeded longer streams through the same machine (rows = passing read names, cell semantics, order confluence, filter monotonicity, pools, mismatch never silently used); conformance in both directions with real files.",
    "Trusts TLC and the CommunityModules Json/IOUtils; pysam/htslib file decoding, cross-checked by samwalk.py; bamgen's construction, cross-checked in both directions. Exhaustive within the bounds; longer streams and more SNVs are seeded samples.",
)
claim(
    "C19",
    "DESIGN.md section 3, C19 and 7.2 / 7.2.1 (as built); notes/report-C06-C19.md",
    "TLA+ model of find-snvs (FindSnvs.tla: filtered pileup depths for every read-filter configuration at once, threshold rule in exact rationals) model-checked with TLC; every state realised as BAMs and run through write_vcf_block (depth observed at its call site) and find_snvs.main; golden and random BAMs validated by TraceFindSnvs.tla through the SAM walker",
    "TLC model-checks every bag of <= 3 flagged / low-MAPQ alignments over 2 samples x 2 positions (16-24 filter configurations) and every depth table reachable with <= 4-5 plain reads (33-217 rational threshold configurations); every state is executed on the real program; a depth explained only by another filter configuration is classified as an ignored option.",
    "Trusts TLC and Json/IOUtils; pysam's pileup engine on unpaired reads with base qualities >= 30, cross-checked by the SAM walker; documentation-silent cases (uncovered sample with --maf > 0, non-dyadic population-mean boundary) are judged relationally.",
)
claim(
    "C07",
    "DESIGN.md section 3, C07 and 7.2 / 7.2.1 (as built); notes/report-C07-C10.md",
    "TLA+ record predicate WellFormed (VcfRecord.tla, 23 clauses) and configuration-space machine (Scenario.tla: program x --report set x dataset shape x ploidies) model-checked with TLC; every (program, --report set) executed on generated datasets and every emitted line, with the internal values captured from LocusAssemblyData, validated by TraceVcf.tla (also the 38 golden VCFs)",
    "TLC shows that the record the documented pipeline produces satisfies WellFormed for every configuration of the bounded space (3 456 quick / 126 144 thorough); the property itself is decided by trace validation: each output line of assemble, call, call-exact and call-pedigree on datasets containing every shape gets a TLC verdict naming failing clauses (cardinalities, GT shape, REF/ALT vs reference and SNVs, recounts, rounding).",
    "Trusts TLC and CommunityModules Json; the str.split/regex/decimal lexer vlib/vcflines.py; the capture of internals by wrapping format_vcf_record; pysam only to generate data and as a parse-only second opinion. Datasets are generated (seeded), not exhaustive.",
)
claim(
    "C10",
    "DESIGN.md section 3, C10 and 7.2 / 7.2.1 (as built); notes/report-C07-C10.md",
    "TLA+ data-flow model (SampleFlow.tla: encode / call with per-sample reseeding / haplotype union / labelling, two-run product over all configurations of 3 base samples) model-checked with TLC; every enumerated configuration run for real with call, call-exact and assemble (pool files, physically merged BAMs) and the relations between every ordered pair of logged runs validated by TraceSampleFlow.tla",
    "TLC checks ColumnIndependent, AssembleMonotone, PoolIsUnion and OrderPermutesColumns exhaustively over the two-run product of all subset / order / pool configurations (<= 2 units quick, <= 3 thorough); the same configurations are executed on generated and repository data and TLC evaluates the relations on the recorded outputs.",
    "Trusts TLC and Json; the vcflines.py lexer; pysam for writing merged BAMs; pool-vs-merged numeric fields are compared within one unit of the last printed place. call-pedigree is excluded (joint by design).",
)
claim(
    "C03",
    "DESIGN.md section 3, C03 and 7.2 / 7.2.1 (as built); notes/report-C02-C03.md",
    "TLA+ model of the exact posterior (CallModel/ExactPosterior.tla: streaming enumerator machine next to the declarative array path, exact integer joint weights) model-checked with TLC; every instance replayed into the compiled and interpreted API and a grid through `mchap call-exact` for each --report subset; step traces, random instances and every printed field validated by TraceExactPosterior.tla",
    "TLC exhaustively enumerates a bounded instance grid (haplotype menus x read bags x ploidy 1-4 x F in k/4 x frequency patterns incl. zeros; 5 427 quick / 62 544 thorough) and checks normalisation, arg-max, VCF order, support-class sum, AFP/ACP/AOP identities, agreement of the two paths and report-set independence over all 128 report subsets in exact arithmetic; conformance in both directions incl. the command line.",
    "Trusts TLC, CommunityModules Json/IOUtils, Python fractions, pysam/htslib for the generated files (outputs read back by an independent text parser) and numba compiling the interpreted source. Exhaustive within the grid; larger instances sampled.",
)
claim(
    "C02",
    "DESIGN.md section 3, C02 and 7.2 / 7.2.1 (as built); notes/report-C02-C03.md",
    "TLA+ model of the call sampler (CallSampler.tla: random-order single-site Gibbs / MH updates and sort, on the same exact model as C03) model-checked with TLC; every (ordered vector, position) evaluated on the real gibbs_options / mh_options (compiled, with cache, interpreted); recordings of CallingMCMC.fit and whole `mchap call` runs validated by TraceCallSampler.tla",
    "TLC visits every ordered allele vector and scan prefix of 98 (quick) / 816 (thorough) instances and checks the Gibbs full conditional, single-site and compound stationarity, MH detailed balance, permutation equivariance and target = call-exact posterior exactly; the real Gibbs rows must equal the exact conditional to 1e-9 and the real MH rows must be proper and satisfy detailed balance and stationarity at the exact target.",
    "As C03, plus random_choice / numpy RNG drawing from the row they are given, and the restriction to alleles of positive prior frequency (removed by `mchap call` before sampling) with K >= 2 for MH.",
)
claim(
    "C13",
    "DESIGN.md section 3, C13 and 7.2 / 7.2.1 (as built); notes/report-C13.md",
    "TLA+ model of haplotype reporting (HapCallingDefs/HapCalling.tla: posterior bags with dyadic counts built by AddMass, Filter fixes the threshold, Order chooses any admissible ALT order and writes GT/AFP/AOP/GP) model-checked with TLC; every reported state replayed into call_posterior_haplotypes, _genotype_as_alleles, _genotype_posterior_as_array and the tail of assemble's call_sample_genotypes (fit stubbed with a trace realising the state's posterior); real assemble runs with captured posteriors validated by TraceHapCalling.tla",
    "TLC enumerates every collection of per-sample posteriors of the bounded instances (dyadic counts, 1-2 samples, six to nine thresholds incl. boundaries) and checks ALT iff threshold, REFMASKED iff reference below threshold, reference always allele 0 and unused when masked, ALT order, '.' exactly for excluded haplotypes, AFP / GP sums at most one and GP length; every state is executed on the real code path and real assemble runs are validated in the other direction.",
    "Trusts TLC and Json; dyadic counts make the implementation's float comparisons exact; ties (equal scores, equal modes) are relational. Real runs are sampled on repository and generated data.",
)
claim(
    "C14",
    "DESIGN.md section 3, C14 and 7.2 / 7.2.1 (as built); notes/report-C14.md",
    "TLA+ model of trace summaries (TraceFunctionals/TraceSummary.tla: Record / Burn / Shuffle machine over haplotype, allele and pedigree traces; summaries as exact integer counts, order invariance as an action property) model-checked with TLC; every finished state replayed into GenotypeMultiTrace, GenotypeAllelesMultiTrace, PedigreeAllelesMultiTrace and mset functions (compiled and interpreted); summaries printed by real fits validated by TraceTraceSummary.tla",
    "TLC enumerates every small trace (chains x steps x ploidy x alleles, every within-genotype storage order for haplotype traces, every burn-in, relabelling) and checks exact burn-in per chain, normalisation, GPM <= SPM, array placement, support grouping, incongruence range and invariance of the summary under storage-order transpositions; every finished state is executed on the real trace / posterior classes and real program outputs are validated in the other direction. The known defect D8 (replicate_incongruence) is reported as a known finding.",
    "Trusts TLC and Json; all values are integer counts (probability = count / n); ties yield sets of admissible answers. Allele-trace incongruence is relational between the two readings the code bases use.",
)
