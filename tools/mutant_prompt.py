#!/usr/bin/env python3
"""Print the prompt for an independent 'seeded change' sub-agent for a property (nothing from /verif is disclosed)."""
import json, sys
pid = sys.argv[1]; tag = sys.argv[2] if len(sys.argv) > 2 else "a"
p = next(json.loads(l) for l in open('/verif/properties.jsonl') if json.loads(l)['id'] == pid)
name = "%s%s" % (pid, tag)
print(f"""You are testing how well a verification effort can detect subtle regressions in the open-source Python/numba project MCHap (PlantandFoodResearch/MCHap: MCMC and exact Bayesian samplers for polyploid micro-haplotype assembly and genotype calling). You work ONLY in your own scratch git worktree of the repository; do not read or touch /verif or /repo's working tree (you may run `git -C /repo worktree ...` commands only).

Setup (run first):
  mkdir -p /tmp/seeded/{name} && git -C /repo worktree add --detach /tmp/seeded/{name}/w HEAD
Work in /tmp/seeded/{name}/w. Python with all dependencies is /venv/bin/python; to import your edited tree run with cwd=/tmp/seeded/{name}/w or PYTHONPATH=/tmp/seeded/{name}/w (the package is otherwise installed in editable mode pointing at /repo). Set NUMBA_CACHE_DIR=/tmp/seeded/{name}/nbcache for everything you run. There is no network. The machine is shared: do not use more than 4 cores.

The property (a semantic guarantee users rely on):
  Title: {p['title']}
  Statement: {p['statement']}
  Must hold for: {p['quantifier']['text']}
  Code it is anchored in: {', '.join(p['anchors']['files'])}

Your task: produce TWO different, independent source changes to MCHap (each a small patch a plausible refactoring / optimisation / bug-fix attempt could introduce) that each BREAK this property while the project still imports, compiles (numba) and PASSES THE EXISTING TEST SUITE. The suite is run as
  cd /tmp/seeded/{name}/w && /venv/bin/python -m pytest -q -p no:cacheprovider --timeout=900 -x --deselect mchap/tests/test_docs.py --deselect "mchap/tests/test_jitutils.py::test_comb[0-0]"
(the deselected tests fail on the pristine tree in this sandbox; the full suite takes ~5 minutes; while iterating run only the relevant test modules, then the full suite once per final patch).
Prefer changes that need something specific to manifest — an unusual input (duplicated haplotypes, multi-allelic sites, many SNVs, unequal read counts, masked alleles...), a particular multi-step sequence of operations, a particular cache/RNG/process history, or two cooperating sites that each look fine alone — NOT changes that ordinary use or the existing tests would expose at once. The two changes should break the property in different ways / at different code sites. Think broadly about where the trigger can live: numeric ranges (counts of anything beyond 127 / 255 / 32767, coordinates beyond 65535, very small or very large probabilities), exact boundary values of thresholds and options, combinations of two non-default options, file-format corner cases (header features, flags, missing or empty fields, unusual but legal names and orderings), and the history of earlier calls.

For each change i in (1, 2) write into /tmp/seeded/{name}/change<i>/:
  patch.diff   — `git diff` of the change against HEAD (only files under mchap/, no test edits)
  demo.py      — a small standalone program (run as `/venv/bin/python demo.py` with PYTHONPATH pointing at a tree) that exits 0 on the pristine tree and exits 1 (printing what went wrong) on the patched tree, demonstrating the property violation through observable behaviour
  meta.json    — {{"property": "{pid}", "summary": "...", "needs_to_manifest": "...", "files_changed": [...], "tests_run": "the exact pytest command and its pass count", "demo_pristine_exit": 0, "demo_patched_exit": 1}}
Verify all of that yourself (suite passes WITH the patch; demo passes on pristine HEAD and fails with the patch). Keep only one change applied at a time (git stash / git checkout between them). When finished, leave the worktree clean at HEAD (`git -C /tmp/seeded/{name}/w checkout -- .`) and reply with a short summary of both changes. Do not remove the worktree.""")
