#!/bin/sh
# tools/eval_wave.sh <suffix> <Cxx> [<Cxx> ...] : evaluate /tmp/seeded/<Cxx><suffix>/change{1,2} against ./check <Cxx>
cd /verif
S=$1; shift
for p in "$@"; do
  for ch in change1 change2; do
    d=/tmp/seeded/$p$S/$ch
    [ -f $d/patch.diff ] || { echo "== $p $ch MISSING"; continue; }
    echo "== $p$S $ch"
    tools/try_seeded.sh $d $p 2>&1 | tail -3
  done
done
